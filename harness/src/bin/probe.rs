//! Debug helper: probe <kind> <grammar-file> <bytes-as-string> : feeds bytes through a byte-vocabulary
//! matcher, computing a mask before each byte; prints errors.
use vh::sess::{mask_ids, Cfg};
use vh::vocab::byte_vocab;
fn main() {
    let a: Vec<String> = std::env::args().collect();
    let text = std::fs::read_to_string(&a[2]).unwrap();
    let g = serde_json::json!({"kind": a[1], "text": text});
    let cfg = Cfg::new(byte_vocab(false), 0, &serde_json::json!({"slices": []})).unwrap();
    let mut m = cfg.matcher(&g);
    if let Some(e) = m.get_error() {
        println!("compile error: {}", e.lines().next().unwrap_or(""));
        return;
    }
    let input = a.get(3).cloned().unwrap_or_default();
    let do_mask = a.get(4).map(|s| s != "nomask").unwrap_or(true);
    for b in input.bytes() {
        if do_mask {
            match m.compute_mask() {
                Ok(mask) => println!("mask before {:?}: {} tokens, allowed={}", b as char, mask_ids(&mask).len(), mask.is_allowed(b as u32)),
                Err(e) => { println!("mask error: {}", e.to_string().lines().next().unwrap_or("").to_string()); return; }
            }
        }
        if let Err(e) = m.consume_token(b as u32) {
            println!("consume {:?} error: {}", b as char, e.to_string().lines().next().unwrap_or("").to_string());
            return;
        }
        println!("consumed {:?} stop={}", b as char, m.stop_reason());
    }
    match m.compute_mask() {
        Ok(mask) => println!("final mask: {:?}", mask_ids(&mask).iter().take(40).collect::<Vec<_>>()),
        Err(e) => println!("final mask error: {}", e.to_string().lines().next().unwrap_or("").to_string()),
    }
    println!("accepting={:?} ffbytes={:?}", m.is_accepting(), String::from_utf8_lossy(&m.compute_ff_bytes()));
}
