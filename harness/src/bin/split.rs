//! C02 / C13 (relational) driver: one grammar, a single-byte engine E0 and multi-byte engines E1 (E2)
//! over different vocabularies, kept at the same byte position. usage: split <job.json> <out.ndjson>
//! episode: {"gid":..,"gram":{..},"v1":{vocab},"v2":{vocab}|null,"steps":n,"seed":n,"hints":[[bytes]..],"max_probe":n}
use llguidance::Matcher;
use serde_json::{json, Value};
use std::collections::HashMap;
use vh::rng::Rng;
use vh::sess::{mask_ids, Cfg};
use vh::vocab::{byte_vocab, from_desc, Vocab};
use vh::{bytes_json, u32s_json, Trace};

fn mk_vocab(d: &Value, gram: &Value, seed: u64, cache: &mut HashMap<String, Vocab>) -> Vocab {
    if d["kind"] == "lang" {
        vh::sess::lang_vocab(gram, d, seed)
    } else {
        cache.entry(d.to_string()).or_insert_with(|| from_desc(d)).clone()
    }
}

/// validate_tokens of the bytes of `w` as single-byte tokens: how many bytes are viable
fn probe(e0: &mut Matcher, w: &[u8]) -> i64 {
    let toks: Vec<u32> = w.iter().map(|&b| b as u32).collect();
    e0.validate_tokens(&toks).map(|n| n as i64).unwrap_or(-1)
}

fn run_episode(ep: &Value, epno: usize, cache: &mut HashMap<String, Vocab>, tr: &mut Trace) -> Value {
    let seed = ep["seed"].as_u64().unwrap_or(epno as u64);
    let mut rng = Rng::new(seed);
    let gram = ep["gram"].clone();
    let v0 = byte_vocab(false);
    let v1 = mk_vocab(&ep["v1"], &gram, seed, cache);
    let v2 = if ep["v2"].is_null() { None } else { Some(mk_vocab(&ep["v2"], &gram, seed ^ 77, cache)) };
    let mut vocs = vec![v0.to_json(), v1.to_json()];
    if let Some(v) = &v2 {
        vocs.push(v.to_json());
    }
    tr.ev(json!({"ev":"Init","ep":epno,"gid":ep["gid"],"vocs":vocs}));
    let c0 = Cfg::new(v0.clone(), 0, &json!({"slices": []})).unwrap();
    let c1 = match Cfg::new(v1.clone(), 1, &json!({"slices": ep["slices"]})) {
        Ok(c) => c,
        Err(_) => return json!({"skipped": 1}),
    };
    let c2 = v2.as_ref().and_then(|v| Cfg::new(v.clone(), 2, &json!({"slices": []})).ok());
    let mut e0 = c0.matcher(&gram);
    let mut e1 = c1.matcher(&gram);
    for (e, m) in [(0, &e0), (1, &e1)] {
        tr.ev(json!({"ev":"New","e":e,"v":e,"ok":(!m.is_error()) as u32}));
    }
    if e0.is_error() || e1.is_error() {
        return json!({"compiled": 0});
    }
    // process_prompt never loses or invents text (canonical tokenizers only)
    if v1.canonical {
        let fresh = {
            let mut m = c1.matcher(&gram);
            m.compute_ff_bytes()
        };
        for k in 0..3 {
            let tg = match vh::sess::grammar_from_desc(&gram) {
                Ok(t) => t,
                Err(_) => break,
            };
            let mut tp = match c1.factory.create_parser(tg) {
                Ok(t) => t,
                Err(_) => break,
            };
            // a prompt of ordinary tokens; sometimes ending in the beginning of the forced text
            let mut pbytes: Vec<u8> = vec![];
            for _ in 0..rng.below(4) {
                let t = rng.below(v1.n()) as u32;
                if !v1.is_special(t) {
                    pbytes.extend_from_slice(&v1.words[t as usize]);
                }
            }
            if k > 0 && !fresh.is_empty() && rng.chance(60, 100) {
                pbytes.extend_from_slice(&fresh[..1 + rng.below(fresh.len())]);
            }
            if k == 2 && !fresh.is_empty() {
                // a prompt whose tail, the whole forced text and one more byte together spell the beginning of a token
                // (token healing then reaches back past the forced bytes into the prompt)
                let cands: Vec<(usize, usize)> = (0..v1.n())
                    .filter(|&t| !v1.is_special(t as u32))
                    .flat_map(|t| {
                        let w = &v1.words[t];
                        (1..w.len()).filter(|&p| w.len() > p + fresh.len() && w[p..p + fresh.len()] == fresh[..]).map(|p| (t, p)).collect::<Vec<_>>()
                    })
                    .collect();
                if !cands.is_empty() {
                    let (t, p) = *rng.pick(&cands);
                    pbytes.extend_from_slice(&v1.words[t][..p]);
                }
            }
            if pbytes.contains(&0xFF) {
                continue;
            }
            let prompt = c1.env.tokenize_bytes(&pbytes);
            let pdec = c1.env.tok_trie().decode_raw(&prompt);
            let r = std::panic::catch_unwind(std::panic::AssertUnwindSafe(|| {
                let res = tp.process_prompt(prompt.clone());
                let pending = tp.force_bytes();
                (res, pending)
            }));
            match r {
                Ok((res, pending)) => {
                    let rdec = c1.env.tok_trie().decode_raw(&res);
                    tr.ev(json!({"ev":"Prompt","prompt":bytes_json(&pdec),"ret":bytes_json(&rdec),"pending":bytes_json(&pending),
                                 "fresh":bytes_json(&fresh),"ok":1}));
                }
                Err(_) => tr.ev(json!({"ev":"Prompt","prompt":bytes_json(&pdec),"ok":0})),
            }
        }
    }
    let mut hints: Vec<Vec<u8>> = ep["hints"].as_array().map(|a| a.iter().map(vh::json_bytes).collect()).unwrap_or_default();
    hints.retain(|h| !h.is_empty());
    let mut cur_hint: Option<(Vec<u8>, usize)> = None;
    let max_probe = ep["max_probe"].as_u64().unwrap_or(400) as usize;
    let mut bytes_so_far: Vec<u8> = vec![];
    let mut commits = 0;
    let mut probes = 0usize;
    for _step in 0..ep["steps"].as_u64().unwrap_or(12) {
        if e1.is_stopped() || e0.is_stopped() {
            break;
        }
        // E1's view (on a side clone: the engine under test only gets the scenario's calls)
        let mut side = e1.deep_clone();
        let side_mask = match side.compute_mask() {
            Ok(m) => mask_ids(&m),
            Err(_) => break,
        };
        // byte-level facts from E0 for the token byte strings of V1
        let mut ids: Vec<u32> = vec![];
        if v1.n() <= max_probe {
            ids = (0..v1.n() as u32).collect();
        } else {
            ids.extend(side_mask.iter().cloned().take(max_probe / 2));
            for _ in 0..max_probe / 2 {
                ids.push(rng.below(v1.n()) as u32);
            }
            ids.sort();
            ids.dedup();
        }
        ids.retain(|&t| !v1.is_special(t) && !v1.words[t as usize].is_empty());
        let ns: Vec<i64> = ids.iter().map(|&t| probe(&mut e0, &v1.words[t as usize])).collect();
        probes += ids.len();
        tr.ev(json!({"ev":"Probe","v":1,"ids":u32s_json(&ids),"ns":ns}));
        let a0 = e0.is_accepting().unwrap_or(false);
        tr.ev(json!({"ev":"Acc","e":0,"v":a0 as u32}));
        let a1 = e1.is_accepting().unwrap_or(false);
        tr.ev(json!({"ev":"Acc","e":1,"v":a1 as u32}));
        // forced bytes / tokens of E1 against E0's byte-level masks
        // (recorded finding C11/forced-marker-bytes-then-mask: not where a non-canonical engine would be left holding the
        //  marker form of a forced token-identity terminal)
        if v1.canonical || (rng.chance(50, 100) && !e1.deep_clone().compute_ff_bytes().contains(&0xFF)) {
            let b = e1.compute_ff_bytes();
            tr.ev(json!({"ev":"FFBytes","e":1,"b":bytes_json(&b)}));
            if !b.is_empty() {
                let mut c = e0.deep_clone();
                let mut masks = vec![];
                let mut accs = vec![];
                for &x in &b {
                    accs.push(c.is_accepting().unwrap_or(false) as u32);
                    let m = c.compute_mask().map(|m| mask_ids(&m)).unwrap_or_default();
                    masks.push(u32s_json(&m.into_iter().filter(|&t| t < 256).collect::<Vec<u32>>()));
                    if c.consume_token(x as u32).is_err() {
                        break;
                    }
                }
                tr.ev(json!({"ev":"ForcedProbe","b":bytes_json(&b),"masks":masks,"accs":accs}));
            }
            if v1.canonical {
                let t = e1.compute_ff_tokens();
                tr.ev(json!({"ev":"FFTokens","e":1,"toks":u32s_json(&t)}));
            }
        }
        match e1.compute_mask() {
            Ok(m) => tr.ev(json!({"ev":"Mask","e":1,"ok":1,"set":u32s_json(&mask_ids(&m))})),
            Err(err) => {
                if vh::err_class(&err.to_string()) == "limit" {
                    tr.ev(json!({"ev":"Limit","e":1,"call":"mask"}));
                } else {
                    tr.ev(json!({"ev":"Mask","e":1,"ok":0}));
                }
                break;
            }
        }
        // a second multi-byte engine that reaches the same bytes by another tokenisation
        if let (Some(c2), Some(v2)) = (&c2, &v2) {
            if rng.chance(40, 100) && !bytes_so_far.is_empty() {
                let toks2 = c2.env.tokenize_bytes(&bytes_so_far);
                let mut e2 = c2.matcher(&gram);
                let r2 = e2.consume_tokens(&toks2);
                let lim2 = r2.as_ref().err().map(|x| vh::err_class(&x.to_string()) == "limit").unwrap_or(false);
                let ok = r2.is_ok();
                if lim2 {
                    tr.ev(json!({"ev":"Limit","e":2,"call":"sync"}));
                } else {
                    tr.ev(json!({"ev":"Sync","e":2,"v":2,"toks":u32s_json(&toks2),"ok":ok as u32}));
                }
                if ok && !e2.is_stopped() {
                    let mut ids2: Vec<u32> = if v2.n() <= max_probe { (0..v2.n() as u32).collect() } else {
                        (0..max_probe).map(|_| rng.below(v2.n()) as u32).collect() };
                    ids2.sort();
                    ids2.dedup();
                    ids2.retain(|&t| !v2.is_special(t) && !v2.words[t as usize].is_empty());
                    let ns2: Vec<i64> = ids2.iter().map(|&t| probe(&mut e0, &v2.words[t as usize])).collect();
                    probes += ids2.len();
                    tr.ev(json!({"ev":"Probe","v":2,"ids":u32s_json(&ids2),"ns":ns2}));
                    let a2 = e2.is_accepting().unwrap_or(false);
                    tr.ev(json!({"ev":"Acc","e":2,"v":a2 as u32}));
                    match e2.compute_mask() {
                        Ok(m) => tr.ev(json!({"ev":"Mask","e":2,"ok":1,"set":u32s_json(&mask_ids(&m))})),
                        Err(err) => {
                            if vh::err_class(&err.to_string()) == "limit" {
                                tr.ev(json!({"ev":"Limit","e":2,"call":"mask"}))
                            } else {
                                tr.ev(json!({"ev":"Mask","e":2,"ok":0}))
                            }
                        }
                    }
                }
            }
        }
        // next token (literal-directed now and then)
        let cands: Vec<u32> = side_mask.iter().cloned().filter(|&t| t != v1.eos).collect();
        if cands.is_empty() {
            break;
        }
        if cur_hint.is_none() && !hints.is_empty() && rng.chance(30, 100) {
            let h = rng.pick(&hints).clone();
            let stop = 1 + rng.below(h.len());
            cur_hint = Some((h[..stop].to_vec(), 0));
        }
        let mut chosen = None;
        if let Some((h, pos)) = cur_hint.clone() {
            let rest = &h[pos..];
            let hc: Vec<u32> = cands.iter().cloned().filter(|&t| {
                let b = &v1.words[t as usize];
                !b.is_empty() && b[0] != 0xFF && rest.starts_with(b)
            }).collect();
            if hc.is_empty() {
                cur_hint = None;
            } else {
                let t = *rng.pick(&hc);
                let np = pos + v1.words[t as usize].len();
                cur_hint = if np >= h.len() { None } else { Some((h, np)) };
                chosen = Some(t);
            }
        }
        let t = chosen.unwrap_or_else(|| *rng.pick(&cands));
        if v1.is_special(t) {
            break; // token-identity lexemes are C19's business
        }
        let r1 = e1.consume_token(t);
        if r1.as_ref().err().map(|x| vh::err_class(&x.to_string()) == "limit").unwrap_or(false) {
            tr.ev(json!({"ev":"Limit","e":1,"call":"consume"}));
            break;
        }
        let ok1 = r1.is_ok();
        tr.ev(json!({"ev":"Consume","e":1,"t":t,"ok":ok1 as u32}));
        if !ok1 {
            break;
        }
        let w = v1.words[t as usize].clone();
        let btoks: Vec<u32> = w.iter().map(|&b| b as u32).collect();
        let r0 = e0.consume_tokens(&btoks);
        if r0.as_ref().err().map(|x| vh::err_class(&x.to_string()) == "limit").unwrap_or(false) {
            tr.ev(json!({"ev":"Limit","e":0,"call":"consume_bytes"}));
            break;
        }
        let ok0 = r0.is_ok();
        tr.ev(json!({"ev":"ConsumeBytes","e":0,"b":bytes_json(&w),"ok":ok0 as u32}));
        if !ok0 {
            break;
        }
        bytes_so_far.extend_from_slice(&w);
        commits += 1;
    }
    let s0 = e0.stop_reason().to_string();
    let s1 = e1.stop_reason().to_string();
    // (after a resource-limit failure the two engines are no longer comparable)
    if !tr.last_was_limit() {
        tr.ev(json!({"ev":"End","st0":s0,"st1":s1}));
    }
    json!({"compiled":1,"commits":commits,"probes":probes})
}

fn main() {
    let args: Vec<String> = std::env::args().collect();
    let job = vh::read_job(&args[1]);
    let mut tr = Trace::create(&args[2]);
    let mut cache = HashMap::new();
    let mut stats = vec![];
    for (i, ep) in job["episodes"].as_array().expect("episodes").iter().enumerate() {
        stats.push(run_episode(ep, i, &mut cache, &mut tr));
    }
    tr.flush();
    println!("{}", json!({"episodes": stats, "events": tr.n}));
}
