//! C16 (tokenizer descriptions): usage: tokz <job.json> <out.ndjson>
//! case: {"kind":"tj"|"hf"|"tiktoken", "json": <tokenizer.json value>, "names":[[cps]..], "special":[ids], "space":cp,
//!        "mode":"byte_level"|"byte_fallback", "texts":[[bytes]..], tiktoken: "ranks":[[bytes],rank].., "specials":[[name,rank]..],
//!        "n_vocab":n|null, "eos":id}
use serde_json::{json, Value};
use vh::{bytes_json, json_bytes, u32s_json, Trace};

fn table_json(t: &[Vec<u8>]) -> Value {
    Value::Array(t.iter().map(|w| bytes_json(w)).collect())
}

fn main() {
    let args: Vec<String> = std::env::args().collect();
    let job = vh::read_job(&args[1]);
    let mut tr = Trace::create(&args[2]);
    for case in job["cases"].as_array().expect("cases") {
        tr.ev(json!({"ev":"Init","n":0,"eos":0,"tok":[]}));
        let kind = case["kind"].as_str().unwrap_or("");
        let mut ev = json!({"ev":"TokTable","kind":kind,"mode":case["mode"],"names":case["names"],"special":case["special"],
                            "space":case["space"]});
        let mut env: Option<toktrie::TokEnv> = None;
        match kind {
            "tj" => match llguidance::token_bytes_from_tokenizer_json(&case["json"]) {
                Ok(t) => {
                    ev["ok"] = json!(1);
                    ev["table"] = table_json(&t);
                }
                Err(_) => ev["ok"] = json!(0),
            },
            "hf" => {
                let text = serde_json::to_vec(&case["json"]).unwrap();
                match toktrie_hf_tokenizers::ByteTokenizer::from_json_bytes(&text) {
                    Ok(bt) => {
                        ev["ok"] = json!(1);
                        ev["table"] = table_json(&bt.token_bytes());
                        env = bt.into_tok_env(None).ok();
                    }
                    Err(_) => ev["ok"] = json!(0),
                }
            }
            "tiktoken" => {
                let ranks: Vec<(Vec<u8>, u32)> = case["ranks"].as_array().unwrap().iter()
                    .map(|x| (json_bytes(&x[0]), x[1].as_u64().unwrap() as u32)).collect();
                let specials: Vec<(String, u32)> = case["specials"].as_array().unwrap().iter()
                    .map(|x| (x[0].as_str().unwrap().to_string(), x[1].as_u64().unwrap() as u32)).collect();
                let nv = case["n_vocab"].as_u64().map(|x| x as usize);
                let eos = case["eos"].as_u64().unwrap_or(0) as u32;
                match toktrie_tiktoken::TikTokenBPE::new(ranks, specials, r"[a-z]+|\s+|[^a-z\s]+", nv, eos) {
                    Ok(t) => {
                        ev["ok"] = json!(1);
                        let e = t.to_env();
                        let trie = e.tok_trie();
                        let tab: Vec<Vec<u8>> = (0..trie.vocab_size() as u32).map(|i| trie.token(i).to_vec()).collect();
                        ev["table"] = table_json(&tab);
                        env = Some(e);
                    }
                    Err(_) => ev["ok"] = json!(0),
                }
            }
            _ => {}
        }
        tr.ev(ev);
        if let Some(e) = env {
            for t in case["texts"].as_array().unwrap_or(&vec![]) {
                let text = json_bytes(t);
                let toks = e.tokenize_bytes(&text);
                let dec = e.tok_trie().decode_raw(&toks);
                tr.ev(json!({"ev":"RoundTrip","text":bytes_json(&text),"toks":u32s_json(&toks),"dec":bytes_json(&dec)}));
            }
        }
    }
    tr.flush();
    println!("{}", json!({"events": tr.n}));
}
