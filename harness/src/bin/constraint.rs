//! C18 (sampling-loop interface) driver: a Constraint next to a twin Matcher fed the same tokens.
//! usage: constraint <job.json> <out.ndjson>
//! episode: {"gid":..,"gram":{..},"vocab":{..},"ff":0|1,"steps":n,"seed":n,"illegal_pct":n}
use llguidance::api::{GrammarInit, ParserLimits};
use llguidance::toktrie::InferenceCapabilities;
use llguidance::{Constraint, Logger, Matcher};
use serde_json::{json, Value};
use std::collections::HashMap;
use vh::rng::Rng;
use vh::sess::{grammar_from_desc, mask_ids, Cfg};
use vh::vocab::{from_desc, Vocab};
use vh::{err_class, u32s_json, Trace};

fn twin_obs(m: &mut Matcher) -> Value {
    if m.is_error() {
        return json!({"err": 1, "stopped": 1, "set": [], "acc": 0});
    }
    let stopped = m.is_stopped();
    let acc = m.is_accepting().unwrap_or(false);
    let set = if stopped { vec![] } else { m.deep_clone().compute_mask().map(|x| mask_ids(&x)).unwrap_or_default() };
    json!({"err": 0, "stopped": stopped as u32, "set": u32s_json(&set), "acc": acc as u32})
}

fn main() {
    let args: Vec<String> = std::env::args().collect();
    let job = vh::read_job(&args[1]);
    let mut tr = Trace::create(&args[2]);
    let mut cache: HashMap<String, Vocab> = HashMap::new();
    for (i, ep) in job["episodes"].as_array().expect("episodes").iter().enumerate() {
        let seed = ep["seed"].as_u64().unwrap_or(i as u64);
        let mut rng = Rng::new(seed);
        let gram = ep["gram"].clone();
        let voc = if ep["vocab"]["kind"] == "lang" {
            vh::sess::lang_vocab(&gram, &ep["vocab"], seed)
        } else {
            cache.entry(ep["vocab"].to_string()).or_insert_with(|| from_desc(&ep["vocab"])).clone()
        };
        let ff = ep["ff"].as_u64().unwrap_or(0) != 0;
        tr.ev(json!({"ev":"Init","ep":i,"gid":ep["gid"],"n":voc.n(),"eos":voc.eos,"ff":ff as u32,"canon":voc.canonical as u32}));
        let cfg = match Cfg::new(voc.clone(), 0, &json!({"slices": [], "ff_tokens": ff as u32})) {
            Ok(c) => c,
            Err(_) => continue,
        };
        let tp = grammar_from_desc(&gram).and_then(|tg| {
            cfg.factory.create_parser_from_init_ext(
                GrammarInit::Serialized(tg),
                Logger::new(0, 0),
                InferenceCapabilities { ff_tokens: ff, ..Default::default() },
                ParserLimits::default(),
            )
        });
        let mut c = match tp {
            Ok(tp) => Constraint::new(tp),
            Err(_) => {
                tr.ev(json!({"ev":"CNew","ok":0}));
                continue;
            }
        };
        tr.ev(json!({"ev":"CNew","ok":1}));
        let mut m = cfg.matcher(&gram);
        let illegal = ep["illegal_pct"].as_u64().unwrap_or(10) as usize;
        let nomask_pct = ep["nomask_pct"].as_u64().unwrap_or(0) as usize;
        let mut have_mask = false;
        for _ in 0..ep["steps"].as_u64().unwrap_or(12) {
            let r = rng.below(100);
            // a commit is normally preceded by a mask; commits without one are made on purpose only
            let do_mask = if have_mask { r < 25 } else { !rng.chance(nomask_pct, 100) };
            if do_mask {
                // compute_mask
                let tw = twin_obs(&mut m);
                let res = c.compute_mask();
                let ev = match res {
                    Ok(sr) => {
                        have_mask = sr.sample_mask.is_some();
                        if sr.is_stop() {
                            json!({"ev":"CMask","res":"stop","set":[],"twin":tw})
                        } else if let Some(mask) = &sr.sample_mask {
                            json!({"ev":"CMask","res":"sample","set":u32s_json(&mask_ids(mask)),"twin":tw})
                        } else {
                            json!({"ev":"CMask","res":"splice","set":[],"twin":tw})
                        }
                    }
                    Err(e) => json!({"ev":"CMask","res":"err","set":[],"cls":err_class(&e.to_string()),"twin":tw}),
                };
                tr.ev(ev);
                continue;
            }
            // commit_token: a token from the current sample mask, or (sometimes) something illegal
            let allowed = c.step_result().sample_mask.as_ref().map(mask_ids).unwrap_or_default();
            let kind = rng.below(100);
            let tok: Option<u32> = if kind < illegal / 3 {
                None
            } else if kind < 2 * illegal / 3 {
                Some(voc.n() as u32 + rng.below(5) as u32)
            } else if kind < illegal || allowed.is_empty() {
                Some(rng.below(voc.n()) as u32)
            } else {
                Some(*rng.pick(&allowed))
            };
            // what the twin does with it (on a clone first, to learn the verdict without committing)
            let (twin_ok, twin_fft) = match tok {
                Some(t) if (t as usize) < voc.n() && !m.is_error() && !m.is_stopped() => {
                    let mut probe = m.deep_clone();
                    let ok = probe.consume_token(t).is_ok();
                    let fft = if ok && ff { probe.compute_ff_tokens() } else { vec![] };
                    (ok as u32, fft)
                }
                _ => (0, vec![]),
            };
            let res = c.commit_token(tok);
            have_mask = false;
            let ev = match &res {
                Ok(cr) => json!({"ev":"CCommit","tok":tok.map(|t| t as i64).unwrap_or(-1),"res":"ok","toks":u32s_json(&cr.ff_tokens),
                                 "stop":cr.stop as u32,"bt":cr.backtrack,"twin":{"ok":twin_ok,"fft":u32s_json(&twin_fft)}}),
                Err(e) => json!({"ev":"CCommit","tok":tok.map(|t| t as i64).unwrap_or(-1),"res":"err","toks":[],"stop":0,"bt":0,
                                 "cls":err_class(&e.to_string()),"twin":{"ok":twin_ok,"fft":u32s_json(&twin_fft)}}),
            };
            tr.ev(ev);
            if let Ok(cr) = &res {
                // keep the twin in step with what the constraint says was appended
                for &t in &cr.ff_tokens {
                    let _ = m.consume_token(t);
                }
            }
        }
    }
    tr.flush();
    println!("{}", json!({"events": tr.n}));
}
