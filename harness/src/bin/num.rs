//! C08/C09 driver: for each (grammar, list of byte strings): does it compile, and is each string
//! accepted as a complete output?  usage: num <job.json> <out.ndjson>
//! job: {"cases":[{"gram":{..}, "meta":{.. copied into the event ..}, "ev":"Num"|"Count",
//!                 "lits":[{"text":"..", ..meta..}]}]}
use serde_json::{json, Value};
use vh::sess::Cfg;
use vh::vocab::byte_vocab;
use vh::Trace;

fn main() {
    let args: Vec<String> = std::env::args().collect();
    let job = vh::read_job(&args[1]);
    let mut tr = Trace::create(&args[2]);
    let voc = byte_vocab(false);
    let eos = voc.eos;
    let cfg = Cfg::new(voc, 0, &json!({"slices": []})).expect("factory");
    let mut n_verdicts = 0usize;
    let mut n_compiled = 0usize;
    for case in job["cases"].as_array().expect("cases") {
        tr.ev(json!({"ev":"Init"}));
        let mut m = cfg.matcher(&case["gram"]);
        let compiled = !m.is_error();
        let mut ev = case["meta"].clone();
        ev["ev"] = case["ev"].clone();
        ev["compiled"] = json!(compiled as u32);
        let mut lits = vec![];
        if compiled {
            n_compiled += 1;
        }
        for lit in case["lits"].as_array().unwrap_or(&vec![]) {
            let mut out = lit.clone();
            let acc = if compiled {
                let text = lit["text"].as_str().unwrap_or("");
                let mut toks: Vec<u32> = text.bytes().map(|b| b as u32).collect();
                toks.push(eos);
                match m.validate_tokens(&toks) {
                    Ok(n) => (n == toks.len()) as u32,
                    Err(_) => 2,
                }
            } else {
                0
            };
            n_verdicts += 1;
            out["acc"] = json!(acc);
            lits.push(out);
            if m.is_error() {
                // an internal failure during validation: rebuild so the remaining literals are judged
                m = cfg.matcher(&case["gram"]);
            }
        }
        ev["lits"] = Value::Array(lits);
        tr.ev(ev);
    }
    tr.flush();
    println!("{}", json!({"events": tr.n, "verdicts": n_verdicts, "compiled": n_compiled}));
}
