//! C17 (and the batch part of C14): the C API against twin Rust objects in the same state.
//! usage: ffi <job.json> <out.ndjson>
//! episode: {"gid":..,"gram":{..},"vocab":{..},"steps":n,"seed":n,"par":n_constraints}
//! Buffers are logged as lists of set bit positions (TLC integers are 32-bit) plus their length in
//! words; destination buffers sit between canary words.
use llguidance::ffi::*;
use llguidance::toktrie::{InferenceCapabilities, SimpleVob};
use llguidance::{Constraint, Matcher};
use serde_json::{json, Value};
use std::collections::HashMap;
use std::ffi::CString;
use vh::rng::Rng;
use vh::sess::{grammar_from_desc, mask_ids, Cfg};
use vh::vocab::{from_desc, Vocab};
use vh::{u32s_json, Trace};

const CANARY: u32 = 0xA5A5_5A5A;

fn bits_of(words: &[u32]) -> Vec<u32> {
    let mut r = vec![];
    for (wi, &w) in words.iter().enumerate() {
        let mut w = w;
        while w != 0 {
            r.push(wi as u32 * 32 + w.trailing_zeros());
            w &= w - 1;
        }
    }
    r
}

fn vob_words(v: &SimpleVob) -> Vec<u32> {
    v.as_slice().to_vec()
}

/// leave non-zero garbage in freed heap blocks of about this size, so that a read past the end
/// of a fresh allocation is likely to show
fn poison_heap(words: usize) {
    let mut keep = vec![];
    for k in 0..64 {
        let v: Vec<u32> = vec![0xDEAD_BEEF; words + (k % 5)];
        keep.push(v);
    }
    drop(keep);
}

struct CTok {
    tok: *mut LlgTokenizer,
    _lens: Vec<u32>,
    _bytes: Vec<u8>,
    _slices: Vec<*const std::os::raw::c_char>,
}

fn c_tokenizer(voc: &Vocab) -> Option<CTok> {
    let lens: Vec<u32> = voc.words.iter().map(|w| w.len() as u32).collect();
    let bytes: Vec<u8> = voc.words.iter().flat_map(|w| w.iter().cloned()).collect();
    let slices: Vec<*const std::os::raw::c_char> = vec![std::ptr::null()];
    let init = LlgTokenizerInit {
        vocab_size: voc.n() as u32,
        tok_eos: voc.eos,
        token_lens: lens.as_ptr(),
        token_bytes: bytes.as_ptr(),
        tokenizer_json: std::ptr::null(),
        tokenize_assumes_string: false,
        tokenize_fn: None,
        use_approximate_greedy_tokenize_fn: true,
        tokenize_user_data: std::ptr::null(),
        slices: slices.as_ptr(),
    };
    let mut err = vec![0i8; 512];
    let tok = unsafe { llg_new_tokenizer(&init, err.as_mut_ptr() as *mut _, err.len()) };
    if tok.is_null() {
        return None;
    }
    Some(CTok { tok, _lens: lens, _bytes: bytes, _slices: slices })
}

fn tag_and_data(g: &Value) -> (CString, CString) {
    let kind = g["kind"].as_str().unwrap_or("lark");
    let (tag, data) = match kind {
        "json" => ("json_schema", if let Some(t) = g["text"].as_str() { t.to_string() } else { g["schema"].to_string() }),
        "regex" => ("regex", g["text"].as_str().unwrap_or("").to_string()),
        _ => ("lark", g["text"].as_str().unwrap_or("").to_string()),
    };
    (CString::new(tag).unwrap(), CString::new(data.replace('\0', "")).unwrap())
}

fn pick(side: &mut Matcher, rng: &mut Rng) -> Option<u32> {
    let m = side.compute_mask().ok()?;
    let ids = mask_ids(&m);
    if ids.is_empty() {
        None
    } else {
        Some(*rng.pick(&ids))
    }
}

fn matcher_part(ep: &Value, voc: &Vocab, ct: &CTok, cfg: &Cfg, rng: &mut Rng, tr: &mut Trace) {
    let gram = &ep["gram"];
    let mut init: LlgConstraintInit = unsafe { std::mem::zeroed() };
    llg_constraint_init_set_defaults(&mut init, ct.tok);
    init.log_stderr_level = 0;
    let (tag, data) = tag_and_data(gram);
    let cm = unsafe { llg_new_matcher(&init, tag.as_ptr(), data.as_ptr()) };
    let cm = unsafe { &mut *cm };
    let mut rm = cfg.matcher(gram);
    tr.ev(json!({"ev":"Pair","api":"new_matcher","c":llg_matcher_is_error(cm) as u32,"r":rm.is_error() as u32}));
    if rm.is_error() || llg_matcher_is_error(cm) {
        unsafe { llg_free_matcher(cm) };
        return;
    }
    let exact = llg_matcher_get_mask_byte_size(cm);
    let nwords = exact / 4;
    for _ in 0..ep["steps"].as_u64().unwrap_or(10) {
        if rm.is_error() {
            break;
        }
        // masks
        let cret = llg_matcher_compute_mask(cm);
        let cbits = if cret == 0 {
            let p = llg_matcher_get_mask(cm);
            let words = unsafe { std::slice::from_raw_parts(p, nwords) };
            bits_of(words)
        } else {
            vec![]
        };
        let rmask = rm.compute_mask_or_eos();
        let rbits = rmask.as_ref().map(|m| bits_of(&vob_words(m)[..nwords.min(m.as_slice().len())])).unwrap_or_default();
        tr.ev(json!({"ev":"Pair","api":"compute_mask","c":{"ret":cret,"bits":u32s_json(&cbits)},
                     "r":{"ret": if rmask.is_ok() {0} else {-1},"bits":u32s_json(&rbits)}, "n_vocab": voc.n()}));
        if rmask.is_err() {
            break;
        }
        // compute_mask_into with legal buffer lengths (multiples of four bytes)
        for &len_words in &[0usize, nwords.saturating_sub(1), nwords, nwords + 1, 2 * nwords] {
            let mut buf = vec![0x5555_AAAAu32; len_words + 2];
            buf[0] = CANARY;
            buf[len_words + 1] = CANARY;
            let before = bits_of(&buf[1..len_words + 1]);
            let ret = unsafe { llg_matcher_compute_mask_into(cm, buf.as_mut_ptr().add(1), len_words * 4) };
            let after = bits_of(&buf[1..len_words + 1]);
            tr.ev(json!({"ev":"MaskInto","exact":nwords,"len":len_words,"ret":ret,"before":u32s_json(&before),
                         "after":u32s_json(&after),"mask":u32s_json(&rbits),
                         "canl":(buf[0] == CANARY) as u32,"canr":(buf[len_words + 1] == CANARY) as u32}));
            if ret != 0 {
                // the failing call latches the error: rebuild both sides at the same history
                break;
            }
        }
        if llg_matcher_is_error(cm) {
            tr.ev(json!({"ev":"Pair","api":"is_error_after_bad_len","c":1,"r":1}));
            break;
        }
        tr.ev(json!({"ev":"Pair","api":"is_accepting","c":llg_matcher_is_accepting(cm) as u32,
                     "r":rm.is_accepting().unwrap_or(false) as u32}));
        tr.ev(json!({"ev":"Pair","api":"is_stopped","c":llg_matcher_is_stopped(cm) as u32,"r":rm.is_stopped() as u32}));
        if rm.is_stopped() {
            break;
        }
        // validate / ff tokens
        let seq: Vec<u32> = (0..1 + rng.below(3)).map(|_| rng.below(voc.n()) as u32).collect();
        let cv = unsafe { llg_matcher_validate_tokens(cm, seq.as_ptr(), seq.len()) };
        let rv = rm.validate_tokens(&seq).map(|n| n as i64).unwrap_or(-1);
        tr.ev(json!({"ev":"Pair","api":"validate_tokens","c":cv,"r":rv}));
        let mut out = vec![0u32; 8];
        let cn = unsafe { llg_matcher_compute_ff_tokens(cm, out.as_mut_ptr(), out.len()) };
        let rf = rm.compute_ff_tokens();
        tr.ev(json!({"ev":"Pair","api":"ff_tokens","c":u32s_json(&out[..cn.max(0) as usize]),"r":u32s_json(&rf[..rf.len().min(8)])}));
        // commit
        let mut side = rm.deep_clone();
        let t = if rng.chance(8, 100) { rng.below(voc.n() + 3) as u32 } else {
            match pick(&mut side, rng) { Some(t) => t, None => break } };
        let cc = llg_matcher_consume_token(cm, t);
        let rc = if rm.consume_token(t).is_ok() { 0 } else { -1 };
        tr.ev(json!({"ev":"Pair","api":"consume_token","c":cc,"r":rc,"t":t}));
        tr.ev(json!({"ev":"Pair","api":"is_error","c":llg_matcher_is_error(cm) as u32,"r":rm.is_error() as u32}));
        if rc != 0 {
            break;
        }
        if rng.chance(15, 100) {
            let k = rng.below(3);
            let cr = llg_matcher_rollback(cm, k);
            let rr = if rm.rollback(k).is_ok() { 0 } else { -1 };
            tr.ev(json!({"ev":"Pair","api":"rollback","c":cr,"r":rr,"k":k}));
            if rr != 0 {
                break;
            }
        }
    }
    unsafe { llg_free_matcher(cm) };
}

fn constraint_part(ep: &Value, voc: &Vocab, ct: &CTok, cfg: &Cfg, rng: &mut Rng, tr: &mut Trace) {
    let gram = &ep["gram"];
    let mut init: LlgConstraintInit = unsafe { std::mem::zeroed() };
    llg_constraint_init_set_defaults(&mut init, ct.tok);
    init.log_stderr_level = 0;
    let (tag, data) = tag_and_data(gram);
    let c0 = unsafe {
        match tag.to_str().unwrap() {
            "regex" => llg_new_constraint_regex(&init, data.as_ptr()),
            "json_schema" => llg_new_constraint_json(&init, data.as_ptr()),
            _ => llg_new_constraint_lark(&init, data.as_ptr()),
        }
    };
    let twin = || -> Option<Constraint> {
        let tg = grammar_from_desc(gram).ok()?;
        let tp = cfg
            .factory
            .create_parser_from_init_ext(
                llguidance::api::GrammarInit::Serialized(tg),
                llguidance::Logger::new(0, 0),
                InferenceCapabilities::default(),
                llguidance::api::ParserLimits::default(),
            )
            .ok()?;
        Some(Constraint::new(tp))
    };
    let r0 = twin();
    let cerr = unsafe { !llg_get_error(&*c0).is_null() };
    tr.ev(json!({"ev":"Pair","api":"new_constraint","c":cerr as u32,"r":r0.is_none() as u32}));
    if cerr || r0.is_none() {
        unsafe { llg_free_constraint(c0) };
        return;
    }
    // a family of constraints (clones share the lexer) advanced to different histories
    let n = ep["par"].as_u64().unwrap_or(3) as usize;
    let mut cs: Vec<*mut LlgConstraint> = vec![c0];
    let mut rs: Vec<Constraint> = vec![r0.unwrap()];
    for _ in 1..n {
        let src = rng.below(cs.len());
        cs.push(llg_clone_constraint(unsafe { &*cs[src] }));
        rs.push(rs[src].clone());
    }
    let nwords_mask = {
        // engine mask word count = words of a token set of this vocabulary
        cfg.env.tok_trie().alloc_token_set().as_slice().len()
    };
    for round in 0..ep["steps"].as_u64().unwrap_or(6) {
        // batch masks into buffers of different lengths (smaller, equal, larger than the mask)
        let lens: Vec<usize> = (0..cs.len())
            .map(|i| match (i + round as usize) % 4 {
                0 => nwords_mask,
                1 => nwords_mask + 1 + rng.below(6),
                2 => nwords_mask.saturating_sub(1 + rng.below(2)),
                _ => 2 * nwords_mask + 3,
            })
            .collect();
        poison_heap(nwords_mask);
        // "contig": the batch writes into ONE buffer of equal slots (the usual [batch, vocab] tensor): a step that writes
        // outside its slot changes a neighbour's mask, and which neighbour keeps the damage depends on the schedule
        let contig = ep["contig"].as_u64().unwrap_or(0) == 1;
        let lens: Vec<usize> = if contig { vec![nwords_mask + (round as usize % 2); cs.len()] } else { lens };
        let slot = lens[0];
        let mut big: Vec<u32> = vec![0x7777_7777u32; if contig { 2 + slot * (cs.len() + 4) } else { 0 }];
        if contig {
            big[0] = CANARY;
            let last = big.len() - 1;
            big[last] = CANARY;
        }
        let mut bufs: Vec<Vec<u32>> = lens.iter().map(|&l| {
            let mut b = vec![0x7777_7777u32; l + 2];
            b[0] = CANARY;
            b[l + 1] = CANARY;
            b
        }).collect();
        let steps: Vec<LlgConstraintStep> = (0..cs.len())
            .map(|i| LlgConstraintStep {
                constraint: cs[i],
                mask_dest: if contig { unsafe { big.as_mut_ptr().add(1 + i * slot) } } else { unsafe { bufs[i].as_mut_ptr().add(1) } },
                mask_byte_len: lens[i] * 4,
            })
            .collect();
        unsafe { llg_par_compute_mask(steps.as_ptr(), steps.len(), std::ptr::null(), None) };
        if contig {
            // copy the slots back into the per-step buffers; the right canary of a step stands for "nothing behind the
            // last slot was touched" (padding still poisoned, end canary intact)
            let tail_ok = big[1 + slot * cs.len()..big.len() - 1].iter().all(|&w| w == 0x7777_7777) && big[big.len() - 1] == CANARY;
            for i in 0..cs.len() {
                let src = big[1 + i * slot..1 + (i + 1) * slot].to_vec();
                bufs[i][1..slot + 1].copy_from_slice(&src);
                bufs[i][0] = big[0];
                bufs[i][slot + 1] = if tail_ok { CANARY } else { 0 };
            }
        }
        let mut stops = vec![];
        for i in 0..cs.len() {
            let l = lens[i];
            let after = bits_of(&bufs[i][1..l + 1]);
            let rres = rs[i].compute_mask();
            let (rbits, rstop, rok) = match rres {
                Ok(r) => (r.sample_mask.as_ref().map(|m| bits_of(&vob_words(m))).unwrap_or_default(), r.is_stop(), true),
                Err(_) => (vec![], false, false),
            };
            let cerr = unsafe { !llg_get_error(&*cs[i]).is_null() };
            tr.ev(json!({"ev":"ParMask","i":i,"len":l,"nwords":nwords_mask,"n_vocab":voc.n(),"eos":voc.eos,
                         "after":u32s_json(&after),"mask":u32s_json(&rbits),"stop":rstop as u32,"rok":rok as u32,"cerr":cerr as u32,
                         "canl":(bufs[i][0] == CANARY) as u32,"canr":(bufs[i][l + 1] == CANARY) as u32}));
            stops.push(rstop || !rok || cerr);
        }
        // commit one token on each (C and Rust twins alike)
        for i in 0..cs.len() {
            if stops[i] {
                continue;
            }
            let allowed = rs[i].step_result().sample_mask.as_ref().map(mask_ids).unwrap_or_default();
            if allowed.is_empty() {
                continue;
            }
            let t = *rng.pick(&allowed);
            let mut cres = LlgCommitResult { tokens: std::ptr::null(), n_tokens: 0, is_stop: false };
            let cret = llg_commit_token(unsafe { &mut *cs[i] }, t, &mut cres);
            let ctoks: Vec<u32> = if cret == 0 && cres.n_tokens > 0 {
                unsafe { std::slice::from_raw_parts(cres.tokens, cres.n_tokens as usize).to_vec() }
            } else {
                vec![]
            };
            let rres = rs[i].commit_token(Some(t));
            let (rtoks, rstop, rret) = match rres {
                Ok(r) => (r.ff_tokens.clone(), r.stop, 0),
                Err(_) => (vec![], false, -1),
            };
            tr.ev(json!({"ev":"Pair","api":"commit_token","c":{"ret":cret,"toks":u32s_json(&ctoks),"stop":(cret == 0 && cres.is_stop) as u32},
                         "r":{"ret":rret,"toks":u32s_json(&rtoks),"stop":rstop as u32},"t":t}));
        }
    }
    for c in cs {
        unsafe { llg_free_constraint(c) };
    }
}

fn main() {
    let args: Vec<String> = std::env::args().collect();
    let job = vh::read_job(&args[1]);
    let mut tr = Trace::create(&args[2]);
    let mut cache: HashMap<String, Vocab> = HashMap::new();
    for (i, ep) in job["episodes"].as_array().expect("episodes").iter().enumerate() {
        let seed = ep["seed"].as_u64().unwrap_or(i as u64);
        let mut rng = Rng::new(seed);
        let voc = cache.entry(ep["vocab"].to_string()).or_insert_with(|| from_desc(&ep["vocab"])).clone();
        tr.ev(json!({"ev":"Init","ep":i,"gid":ep["gid"],"n":voc.n(),"eos":voc.eos}));
        let ct = match c_tokenizer(&voc) {
            Some(c) => c,
            None => continue,
        };
        let cfg = match Cfg::new(voc.clone(), 0, &json!({"slices": []})) {
            Ok(c) => c,
            Err(_) => continue,
        };
        if ep["no_matcher"].as_u64().unwrap_or(0) == 0 {
            matcher_part(ep, &voc, &ct, &cfg, &mut rng, &mut tr);
        }
        constraint_part(ep, &voc, &ct, &cfg, &mut rng, &mut tr);
        unsafe { llg_free_tokenizer(ct.tok) };
    }
    tr.flush();
    println!("{}", json!({"events": tr.n}));
}
