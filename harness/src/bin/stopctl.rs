//! C18 (stop-sequence controller) driver. usage: stopctl <job.json> <out.ndjson>
//! case: {"vocab":{..}, "stop_tokens":[ids], "stop_strings":["..."], "stop_regex":"..."|null, "rx": <surface AST of the
//!        union of stop strings and stop regex>|null, "seqs":[[token ids]..]}
use llguidance::StopController;
use serde_json::{json, Value};
use vh::vocab::from_desc;
use vh::{bytes_json, json_u32s, Trace};

fn main() {
    let args: Vec<String> = std::env::args().collect();
    let job = vh::read_job(&args[1]);
    let mut tr = Trace::create(&args[2]);
    let mut commits = 0usize;
    for case in job["cases"].as_array().expect("cases") {
        let voc = from_desc(&case["vocab"]);
        let env = voc.env();
        let stop_tokens = json_u32s(&case["stop_tokens"]);
        let strs: Vec<String> = case["stop_strings"].as_array().map(|a| a.iter().map(|x| x.as_str().unwrap().to_string()).collect()).unwrap_or_default();
        let rx = case["stop_regex"].as_str().map(|s| s.to_string());
        for seq in case["seqs"].as_array().unwrap_or(&vec![]) {
            let mut init = json!({"ev":"Init","tok":voc.to_json()["tok"],"n":voc.n(),"stop_tokens":case["stop_tokens"],
                                  "has_rx": (!case["rx"].is_null()) as u32});
            if !case["rx"].is_null() {
                init["rx"] = case["rx"].clone();
            }
            tr.ev(init);
            let sc = StopController::new(env.clone(), stop_tokens.clone(), rx.clone(), strs.clone());
            let mut sc = match sc {
                Ok(s) => s,
                Err(_) => {
                    tr.ev(json!({"ev":"NewStop","ok":0}));
                    continue;
                }
            };
            tr.ev(json!({"ev":"NewStop","ok":1}));
            for t in json_u32s(seq) {
                let r = std::panic::catch_unwind(std::panic::AssertUnwindSafe(|| sc.commit_token(t)));
                commits += 1;
                match r {
                    Ok(s) => {
                        let lossy = s.contains('\u{FFFD}');
                        tr.ev(json!({"ev":"StopCommit","t":t,"out":bytes_json(s.as_bytes()),"stopped":sc.is_stopped() as u32,
                                     "lossy":lossy as u32,"ok":1}));
                    }
                    Err(_) => {
                        tr.ev(json!({"ev":"StopCommit","t":t,"ok":0}));
                        break;
                    }
                }
            }
        }
    }
    tr.flush();
    println!("{}", json!({"events": tr.n, "commits": commits}));
}
