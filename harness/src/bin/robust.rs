//! C20 driver: arbitrary inputs and random call sequences, one case after the other, in a process that
//! the orchestrator treats as expendable. usage: robust <job.json> <out.ndjson> [first_case]
//! case: {"gid":..,"kind":"lark"|"json"|"regex","text":"..","limits":{..}|null,"ncalls":n,"seed":n,"secs":n,
//!        "script":[token ids]|null}
//! Every case is bracketed by Begin/End events and the trace is flushed after each event, so a crash,
//! abort or time-out (SIGALRM) leaves the culprit identifiable.
use serde_json::{json, Value};
use std::time::Instant;
use vh::rng::Rng;
use vh::sess::{mask_ids, Cfg};
use vh::vocab::byte_vocab;
use vh::{err_class, Trace};

fn ms(t: Instant) -> u64 {
    t.elapsed().as_millis() as u64
}

fn main() {
    let args: Vec<String> = std::env::args().collect();
    let job = vh::read_job(&args[1]);
    let first: usize = args.get(3).and_then(|s| s.parse().ok()).unwrap_or(0);
    let mut tr = Trace::create(&args[2]);
    unsafe {
        // address-space limit: runaway allocation becomes an allocation failure / abort, not a machine-wide problem
        let lim = libc::rlimit { rlim_cur: 8 << 30, rlim_max: 8 << 30 };
        libc::setrlimit(libc::RLIMIT_AS, &lim);
    }
    let voc = byte_vocab(false);
    let n = voc.n();
    for (i, case) in job["cases"].as_array().expect("cases").iter().enumerate() {
        if i < first {
            continue;
        }
        let secs = case["secs"].as_u64().unwrap_or(20) as u32;
        unsafe {
            libc::alarm(secs);
        }
        tr.ev(json!({"ev":"Init","i":i,"gid":case["gid"]}));
        tr.ev(json!({"ev":"Begin","i":i,"gid":case["gid"]}));
        tr.flush();
        let mut rng = Rng::new(case["seed"].as_u64().unwrap_or(i as u64));
        let cfgd = json!({"slices": [], "limits": case["limits"]});
        let cfg = Cfg::new(voc.clone(), 0, &cfgd).expect("factory");
        let gram = json!({"kind": case["kind"], "text": case["text"]});
        let t0 = Instant::now();
        let mut m = cfg.matcher(&gram);
        let ok = !m.is_error();
        let cls = m.get_error().map(|e| err_class(&e)).unwrap_or_default();
        tr.ev(json!({"ev":"Build","ok":ok as u32,"cls":cls,"ms":ms(t0)}));
        tr.flush();
        let mut hist_len = 0usize;
        let mut call = |tr: &mut Trace, name: &str, r: Result<(), String>, m: &llguidance::Matcher, t0: Instant| {
            let (ok, cls) = match &r {
                Ok(_) => (1, String::new()),
                Err(e) => (0, err_class(e)),
            };
            tr.ev(json!({"ev":"Call","name":name,"ok":ok,"cls":cls,"st":m.stop_reason().to_string(),"er":m.is_error() as u32,"ms":ms(t0)}));
            tr.flush();
        };
        let ok = ok && case["tp_only"].as_u64().unwrap_or(0) == 0;
        if ok {
            if let Some(script) = case["script"].as_array() {
                for t in script {
                    let t0 = Instant::now();
                    let r = m.consume_token(t.as_u64().unwrap_or(0) as u32).map_err(|e| e.to_string());
                    call(&mut tr, "consume", r, &m, t0);
                }
                let t0 = Instant::now();
                let r = m.compute_mask().map(|_| ()).map_err(|e| e.to_string());
                call(&mut tr, "mask", r, &m, t0);
            }
            for _ in 0..case["ncalls"].as_u64().unwrap_or(10) {
                let t0 = Instant::now();
                match rng.below(12) {
                    0..=3 => {
                        let r = m.compute_mask();
                        let ids = r.as_ref().map(mask_ids).unwrap_or_default();
                        call(&mut tr, "mask", r.map(|_| ()).map_err(|e| e.to_string()), &m, t0);
                        if !ids.is_empty() && rng.chance(85, 100) {
                            let t = *rng.pick(&ids);
                            let t0 = Instant::now();
                            let r = m.consume_token(t).map_err(|e| e.to_string());
                            if r.is_ok() {
                                hist_len += 1;
                            }
                            call(&mut tr, "consume", r, &m, t0);
                        }
                    }
                    4 => {
                        let t = rng.below(n + 3) as u32;
                        let r = m.consume_token(t).map_err(|e| e.to_string());
                        if r.is_ok() {
                            hist_len += 1;
                        }
                        call(&mut tr, "consume_any", r, &m, t0);
                    }
                    5 => {
                        let seq: Vec<u32> = (0..rng.below(5)).map(|_| rng.below(n + 2) as u32).collect();
                        let r = m.validate_tokens(&seq).map(|_| ()).map_err(|e| e.to_string());
                        call(&mut tr, "validate", r, &m, t0);
                    }
                    6 => {
                        let k = rng.below(hist_len + 2);
                        let r = m.rollback(k).map_err(|e| e.to_string());
                        if r.is_ok() {
                            hist_len = hist_len.saturating_sub(k);
                        }
                        call(&mut tr, "rollback", r, &m, t0);
                    }
                    7 => {
                        let _ = m.compute_ff_bytes();
                        call(&mut tr, "ff_bytes", Ok(()), &m, t0);
                    }
                    8 => {
                        let r = m.is_accepting().map(|_| ()).map_err(|e| e.to_string());
                        call(&mut tr, "is_accepting", r, &m, t0);
                    }
                    9 => {
                        let r = m.reset().map_err(|e| e.to_string());
                        if r.is_ok() {
                            hist_len = 0;
                        }
                        call(&mut tr, "reset", r, &m, t0);
                    }
                    10 => {
                        let mut c = m.deep_clone();
                        let r = c.compute_mask_or_eos().map(|_| ()).map_err(|e| e.to_string());
                        call(&mut tr, "clone_mask_or_eos", r, &c, t0);
                    }
                    _ => {
                        let seq: Vec<u32> = (0..rng.below(3)).map(|_| rng.below(n) as u32).collect();
                        let r = m.try_consume_tokens(&seq).map_err(|e| e.to_string());
                        if let Ok(k) = &r {
                            hist_len += k;
                        }
                        call(&mut tr, "try_consume", r.map(|_| ()), &m, t0);
                    }
                }
            }
        }
        // The session object underneath Matcher / Constraint (TokenParser, public): prompt processing with a canonical
        // tokenizer, then sampling, fast-forward tokens, rollbacks INTO the tokens that process_prompt() put into the
        // history, reset.  Calls are wrapped in catch_unwind (TokenParser itself does not catch panics): a panic is an
        // outcome the protocol specification has no action for.
        if case["tp"].as_u64().unwrap_or(0) == 1 {
            let cvoc = byte_vocab(true);
            let cfgd = json!({"slices": [], "limits": case["limits"], "ff_tokens": 1});
            let cfg = Cfg::new(cvoc, 0, &cfgd).expect("factory");
            let built = vh::sess::grammar_from_desc(&gram).and_then(|tg| cfg.factory.create_parser(tg));
            if let Ok(mut tp) = built {
                use std::panic::{catch_unwind, AssertUnwindSafe};
                let tcall = |tr: &mut Trace, name: &str, r: std::thread::Result<Result<(), String>>, tp: &llguidance::TokenParser, t0: Instant| {
                    let (ok, cls) = match &r {
                        Ok(Ok(_)) => (1, String::new()),
                        Ok(Err(e)) => (0, err_class(e)),
                        Err(_) => (0, "panic".to_string()),
                    };
                    tr.ev(json!({"ev":"TCall","name":name,"ok":ok,"cls":cls,"st":tp.stop_reason().to_string(),"nt":tp.num_tokens(),"mt":0,"ms":ms(t0)}));
                    tr.flush();
                };
                let plen = rng.below(3);
                let prompt: Vec<u32> = (0..plen).map(|_| 97 + rng.below(3) as u32).collect();
                let t0 = Instant::now();
                let r = catch_unwind(AssertUnwindSafe(|| { tp.process_prompt(prompt.clone()); Ok(()) }));
                tcall(&mut tr, "process_prompt", r, &tp, t0);
                for _ in 0..case["ncalls"].as_u64().unwrap_or(10) {
                    if tp.stop_reason().to_string() == "InternalError" {
                        break;
                    }
                    let t0 = Instant::now();
                    match rng.below(8) {
                        0..=3 => {
                            let r = catch_unwind(AssertUnwindSafe(|| tp.compute_mask().map_err(|e| e.to_string())));
                            let ids = match &r { Ok(Ok(m)) => mask_ids(m), _ => vec![] };
                            tcall(&mut tr, "mask", r.map(|x| x.map(|_| ())), &tp, t0);
                            if !ids.is_empty() {
                                let t = *rng.pick(&ids);
                                let t0 = Instant::now();
                                let r = catch_unwind(AssertUnwindSafe(|| tp.consume_token(t).map(|_| ()).map_err(|e| e.to_string())));
                                tcall(&mut tr, "consume", r, &tp, t0);
                                let t0 = Instant::now();
                                let r = catch_unwind(AssertUnwindSafe(|| tp.check_stop().map(|_| ()).map_err(|e| e.to_string())));
                                tcall(&mut tr, "check_stop", r, &tp, t0);
                            }
                        }
                        4 | 5 => {
                            let k = rng.below(tp.num_tokens() + 1);
                            let r = catch_unwind(AssertUnwindSafe(|| tp.rollback(k).map_err(|e| e.to_string())));
                            tcall(&mut tr, "rollback", r, &tp, t0);
                        }
                        6 => {
                            let r = catch_unwind(AssertUnwindSafe(|| tp.reset().map_err(|e| e.to_string())));
                            tcall(&mut tr, "reset", r, &tp, t0);
                        }
                        _ => {
                            let r = catch_unwind(AssertUnwindSafe(|| tp.consume_ff_tokens().map(|_| ()).map_err(|e| e.to_string())));
                            tcall(&mut tr, "consume_ff", r, &tp, t0);
                        }
                    }
                }
            }
        }
        unsafe {
            libc::alarm(0);
        }
        tr.ev(json!({"ev":"End","i":i}));
        tr.flush();
    }
    println!("{}", json!({"events": tr.n}));
}
