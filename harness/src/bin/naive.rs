//! C16 driver: vocabulary trie, token sets, against a naive model (spec/Trace_Naive.tla).
//! usage: naive <job.json> <out.ndjson>
//! episode: {"vocab":{"kind":"list",..}, "seed":n, "n_dfa":k, "n_vob":k, "alpha":[bytes]}
use serde_json::{json, Value};
use toktrie::{Recognizer, SimpleVob, TokRxInfo, TokTrie};
use vh::rng::Rng;
use vh::sess::mask_ids;
use vh::vocab::from_desc;
use vh::{bytes_json, u32s_json, Trace};

/// A partial DFA over bytes driven through the public `Recognizer` trait.
struct Dfa {
    // tr[s] = list of (byte set, target)
    tr: Vec<Vec<(Vec<u8>, usize)>>,
    stack: Vec<usize>,
    max_depth: usize,
    depth_at_finish: i64,
    underflow: bool,
}

impl Dfa {
    fn step(&self, s: usize, b: u8) -> Option<usize> {
        for (set, t) in &self.tr[s] {
            if set.contains(&b) {
                return Some(*t);
            }
        }
        None
    }
    fn to_json(&self) -> Value {
        Value::Array(
            self.tr
                .iter()
                .map(|row| Value::Array(row.iter().map(|(set, t)| json!({"b": bytes_json(set), "t": t})).collect()))
                .collect(),
        )
    }
}

impl Recognizer for Dfa {
    fn pop_bytes(&mut self, num: usize) {
        if num >= self.stack.len() {
            self.underflow = true;
            self.stack.truncate(1);
        } else {
            let n = self.stack.len() - num;
            self.stack.truncate(n);
        }
    }
    fn collapse(&mut self) {
        let top = *self.stack.last().unwrap();
        self.stack = vec![top];
    }
    fn trie_finished(&mut self) {
        self.depth_at_finish = self.stack.len() as i64 - 1;
        self.stack.truncate(1);
    }
    fn try_push_byte(&mut self, byte: u8) -> bool {
        match self.step(*self.stack.last().unwrap(), byte) {
            Some(t) => {
                self.stack.push(t);
                self.max_depth = self.max_depth.max(self.stack.len());
                true
            }
            None => false,
        }
    }
}

fn rand_dfa(rng: &mut Rng, alpha: &[u8]) -> Dfa {
    let n = 1 + rng.below(5);
    let mut tr = vec![];
    for _ in 0..n {
        let mut row = vec![];
        let mut used: Vec<u8> = vec![];
        for _ in 0..rng.below(4) {
            let mut set: Vec<u8> = vec![];
            for _ in 0..1 + rng.below(4) {
                let b = if rng.chance(85, 100) { *rng.pick(alpha) } else { rng.below(256) as u8 };
                if !used.contains(&b) {
                    used.push(b);
                    set.push(b);
                }
            }
            if rng.chance(10, 100) {
                // a wide class
                for b in 0..=255u8 {
                    if !used.contains(&b) && b % 3 == 0 {
                        used.push(b);
                        set.push(b);
                    }
                }
            }
            if !set.is_empty() {
                row.push((set, rng.below(n)));
            }
        }
        tr.push(row);
    }
    Dfa { tr, stack: vec![0], max_depth: 0, depth_at_finish: -1, underflow: false }
}

fn vob_json(v: &SimpleVob) -> Value {
    json!({"size": v.len(), "set": u32s_json(&mask_ids(v))})
}

fn main() {
    let args: Vec<String> = std::env::args().collect();
    let job = vh::read_job(&args[1]);
    let mut tr = Trace::create(&args[2]);
    let mut n_bias = 0usize;
    for ep in job["episodes"].as_array().expect("episodes") {
        let mut rng = Rng::new(ep["seed"].as_u64().unwrap_or(1));
        let voc = from_desc(&ep["vocab"]);
        let info = TokRxInfo::new(voc.words.len() as u32, voc.eos);
        let trie = TokTrie::from(&info, &voc.words);
        let alpha: Vec<u8> = vh::json_bytes(&ep["alpha"]);
        let alpha = if alpha.is_empty() { vec![97u8, 98, 99] } else { alpha };
        tr.ev(json!({"ev":"Init","n":voc.n(),"eos":voc.eos,"tok":voc.to_json()["tok"]}));
        // token <-> bytes
        let n = voc.n() as u32;
        let bytes: Vec<Value> = (0..n).map(|t| bytes_json(trie.token(t))).collect();
        let back: Vec<i64> = (0..n)
            .map(|t| if trie.token(t).is_empty() { -1 } else { trie.token_id(trie.token(t)).map(|x| x as i64).unwrap_or(-1) })
            .collect();
        tr.ev(json!({"ev":"TokRound","bytes":bytes,"back":back,"vocab_size":trie.vocab_size(),
                     "max_len":trie.max_token_len()}));
        // add_bias / has_valid_extensions against random acceptors
        for _ in 0..ep["n_dfa"].as_u64().unwrap_or(4) {
            let mut d = rand_dfa(&mut rng, &alpha);
            let s0 = rng.below(d.tr.len());
            d.stack = vec![s0];
            // start prefix: empty, or a (prefix of a) token, or junk
            let start: Vec<u8> = match rng.below(4) {
                0 | 1 => vec![],
                2 => {
                    let w = &voc.words[rng.below(voc.n())];
                    if w.is_empty() || w[0] == 0xFF { vec![] } else { w[..1 + rng.below(w.len())].to_vec() }
                }
                _ => (0..1 + rng.below(2)).map(|_| *rng.pick(&alpha)).collect(),
            };
            let mut toks = trie.alloc_token_set();
            // some bits already set: add_bias must only add
            let mut pre = vec![];
            for _ in 0..rng.below(3) {
                let t = rng.below(voc.n()) as u32;
                toks.allow_token(t);
                pre.push(t);
            }
            trie.add_bias(&mut d, &mut toks, &start);
            n_bias += 1;
            tr.ev(json!({"ev":"AddBias","dfa":d.to_json(),"s0":s0,"start":bytes_json(&start),"pre":u32s_json(&pre),
                         "set":u32s_json(&mask_ids(&toks)),"nb":toks.len(),
                         "depth_at_finish":d.depth_at_finish,"underflow":d.underflow as u32}));
            let mut d2 = Dfa { tr: d.tr.clone(), stack: vec![s0], max_depth: 0, depth_at_finish: -1, underflow: false };
            let hv = trie.has_valid_extensions(&mut d2, &start);
            tr.ev(json!({"ev":"HasExt","dfa":d2.to_json(),"s0":s0,"start":bytes_json(&start),"v":hv as u32}));
        }
        // filter
        for _ in 0..ep["n_filter"].as_u64().unwrap_or(1) {
            let mut keep = trie.alloc_token_set();
            let mut kept = vec![];
            for t in 0..n {
                if rng.chance(60, 100) {
                    keep.allow_token(t);
                    kept.push(t);
                }
            }
            let ft = trie.filter(&keep);
            let fbytes: Vec<Value> = (0..n).map(|t| bytes_json(ft.token(t))).collect();
            let mut d = rand_dfa(&mut rng, &alpha);
            let mut toks = ft.alloc_token_set();
            ft.add_bias(&mut d, &mut toks, &[]);
            tr.ev(json!({"ev":"Filter","keep":u32s_json(&kept),"bytes":fbytes,"dfa":d.to_json(),"s0":0,
                         "set":u32s_json(&mask_ids(&toks)),"vocab_size":ft.vocab_size()}));
        }
        // greedy tokenisation of covered text
        for _ in 0..ep["n_greedy"].as_u64().unwrap_or(3) {
            let mut text: Vec<u8> = vec![];
            for _ in 0..1 + rng.below(6) {
                let w = &voc.words[rng.below(voc.n())];
                if !w.is_empty() && w[0] != 0xFF {
                    text.extend_from_slice(w);
                }
            }
            // "covered" text: every byte also exists as a single-byte token, so greedy matching
            // can never get stuck
            let singles: Vec<u8> = voc.words.iter().filter(|w| w.len() == 1).map(|w| w[0]).collect();
            text.retain(|b| singles.contains(b));
            let toks = trie.greedy_tokenize(&text);
            let dec = trie.decode_raw(&toks);
            tr.ev(json!({"ev":"Greedy","text":bytes_json(&text),"toks":u32s_json(&toks),"dec":bytes_json(&dec)}));
        }
        // token-set algebra around the word boundaries
        let sizes = [1usize, 31, 32, 32, 33, 63, 64, 64, 65, 96, 97];
        for _ in 0..ep["n_vob"].as_u64().unwrap_or(2) {
            let size = *rng.pick(&sizes);
            // sets with spare capacity (as TokTrie::alloc_token_set makes them) and exact ones
            let mk = |rng: &mut Rng| match rng.below(3) {
                0 => SimpleVob::alloc(size),
                1 => SimpleVob::alloc_with_capacity(size, size + 1),
                _ => SimpleVob::alloc_with_capacity(size, size + 33),
            };
            let mut a = mk(&mut rng);
            let mut b = mk(&mut rng);
            tr.ev(json!({"ev":"VobNew","size":size,"a":vob_json(&a),"b":vob_json(&b)}));
            for _ in 0..12 {
                let i = rng.below(size);
                let j = rng.below(size);
                let (lo, hi) = (i.min(j), i.max(j));
                let op = rng.below(14);
                let mut ev = json!({"ev":"VobOp"});
                match op {
                    0 => { a.allow_token(i as u32); ev["op"] = json!("allow"); ev["i"] = json!(i); }
                    1 => { a.disallow_token(i as u32); ev["op"] = json!("disallow"); ev["i"] = json!(i); }
                    2 => { a.allow_range(lo as u32..=hi as u32); ev["op"] = json!("range"); ev["i"] = json!(lo); ev["j"] = json!(hi); }
                    3 => { a = a.negated(); ev["op"] = json!("negate"); }
                    4 => { a.or(&b); ev["op"] = json!("or"); }
                    5 => { a.and(&b); ev["op"] = json!("and"); }
                    6 => { a.sub(&b); ev["op"] = json!("sub"); }
                    7 => { std::mem::swap(&mut a, &mut b); ev["op"] = json!("swap"); }
                    8 => { let c = a.clone(); a.or_minus(&b, &c.negated()); ev["op"] = json!("or_minus_neg_self"); }
                    9 => { a.set_all(rng.chance(50, 100)); ev["op"] = json!("set_all"); ev["i"] = json!(a.get(0) as u32); }
                    10 => { ev["op"] = json!("first"); ev["res"] = json!(a.first_bit_set().map(|x| x as i64).unwrap_or(-1)); }
                    11 => { ev["op"] = json!("count"); ev["res"] = json!(a.num_set()); }
                    12 => { ev["op"] = json!("and_is_zero"); ev["res"] = json!(a.and_is_zero(&b) as u32); }
                    _ => { ev["op"] = json!("first_both"); ev["res"] = json!(a.first_bit_set_here_and_in(&b).map(|x| x as i64).unwrap_or(-1)); }
                }
                ev["a"] = vob_json(&a);
                ev["b"] = vob_json(&b);
                ev["iter"] = u32s_json(&a.iter().collect::<Vec<u32>>());
                tr.ev(ev);
            }
        }
    }
    tr.flush();
    println!("{}", json!({"events": tr.n, "add_bias": n_bias}));
}
