//! C15 driver: dump the front end's grammar before and after Grammar::optimize().
//! usage: optdump <job.json> <out.ndjson>   job: {"cases":[{"gid":..,"gram":{..}}]}
use llguidance::api::{GrammarInit, ParserLimits};
use serde_json::json;
use vh::sess::grammar_from_desc;
use vh::vocab::byte_vocab;
use vh::Trace;

fn main() {
    let args: Vec<String> = std::env::args().collect();
    let job = vh::read_job(&args[1]);
    let mut tr = Trace::create(&args[2]);
    let env = byte_vocab(false).env();
    for case in job["cases"].as_array().expect("cases") {
        tr.ev(json!({"ev":"Init","gid":case["gid"]}));
        let r = grammar_from_desc(&case["gram"]).and_then(|tg| {
            GrammarInit::Serialized(tg).to_internal(Some(env.clone()), ParserLimits::default())
        });
        match r {
            Ok((g, _lex)) => {
                let pre = g.to_string(None);
                let post = std::panic::catch_unwind(std::panic::AssertUnwindSafe(|| g.optimize().to_string(None)));
                match post {
                    Ok(post) => tr.ev(json!({"ev":"OptDump","ok":1,"pre":pre,"post":post})),
                    Err(_) => tr.ev(json!({"ev":"OptDump","ok":0,"pre":pre,"post":"","panic":1})),
                }
            }
            Err(_) => tr.ev(json!({"ev":"OptDump","ok":0,"pre":"","post":"","panic":0})),
        }
    }
    tr.flush();
    println!("{}", json!({"events": tr.n}));
}
