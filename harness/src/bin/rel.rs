//! U3 driver for the relational engine properties (C01, C10, C11, C12, C13-relational, C18-matcher).
//! usage: rel <job.json> <out.ndjson>
//! The driver only *records*; whether the recorded calls are explainable is decided by TLC with
//! spec/Trace_EngineRel.tla.
use llguidance::Matcher;
use serde_json::{json, Value};
use std::collections::HashMap;
use vh::rng::Rng;
use vh::sess::{mask_ids, Cfg, Session};
use vh::vocab::{from_desc, Vocab};
use vh::{u32s_json, Trace};

struct W {
    m: HashMap<String, usize>,
}
impl W {
    fn get(&self, k: &str) -> usize {
        *self.m.get(k).unwrap_or(&0)
    }
}

/// Literal-directed walking: strings taken from the grammar text that the walk tries to spell
/// (so that keywords, lazy-lexeme triggers and enum values are actually reached in free text).
struct Hints {
    all: Vec<Vec<u8>>,
    cur: Option<(Vec<u8>, usize)>,
    pct: usize,
}

/// Pick the next token from the mask of a side engine (never the engine under test).
fn pick_h(side: &mut Matcher, rng: &mut Rng, voc: &Vocab, eos_pct: usize, hints: &mut Hints) -> Option<u32> {
    let eos = voc.eos;
    let m = side.compute_mask().ok()?;
    let ids = mask_ids(&m);
    if ids.is_empty() {
        return None;
    }
    if hints.cur.is_none() && !hints.all.is_empty() && rng.chance(hints.pct, 100) {
        let h = rng.pick(&hints.all).clone();
        // stop somewhere inside the hint, most often near its end
        let stop = if rng.chance(25, 100) { h.len() } else { 1 + rng.below(h.len()) };
        hints.cur = Some((h[..stop].to_vec(), 0));
    }
    if let Some((h, pos)) = hints.cur.clone() {
        let rest = &h[pos..];
        let cands: Vec<u32> = ids
            .iter()
            .cloned()
            .filter(|&t| {
                let b = &voc.words[t as usize];
                !b.is_empty() && b[0] != 0xFF && rest.starts_with(b)
            })
            .collect();
        if cands.is_empty() {
            hints.cur = None;
        } else {
            let t = *rng.pick(&cands);
            let np = pos + voc.words[t as usize].len();
            hints.cur = if np >= h.len() { None } else { Some((h, np)) };
            return Some(t);
        }
    }
    // every end-of-sequence token of the vocabulary ends the run: pick any of them (the primary one half of the time)
    let alle = voc.all_eos();
    let eoss: Vec<u32> = ids.iter().cloned().filter(|t| alle.contains(t)).collect();
    if !eoss.is_empty() && (eoss.len() == ids.len() || rng.chance(eos_pct, 100)) {
        if eoss.contains(&eos) && rng.chance(50, 100) {
            return Some(eos);
        }
        return Some(*rng.pick(&eoss));
    }
    let non: Vec<u32> = ids.into_iter().filter(|t| !alle.contains(t)).collect();
    if non.is_empty() {
        return Some(eos);
    }
    Some(*rng.pick(&non))
}

fn pick(side: &mut Matcher, rng: &mut Rng, eos: u32, eos_pct: usize) -> Option<u32> {
    let m = side.compute_mask().ok()?;
    let ids = mask_ids(&m);
    if ids.is_empty() {
        return None;
    }
    if ids.contains(&eos) && (ids.len() == 1 || rng.chance(eos_pct, 100)) {
        return Some(eos);
    }
    let non: Vec<u32> = ids.into_iter().filter(|&t| t != eos).collect();
    if non.is_empty() {
        return Some(eos);
    }
    Some(*rng.pick(&non))
}

/// Random token sequence: a run of allowed tokens, then possibly junk.
fn rand_seq(side: &mut Matcher, rng: &mut Rng, voc: &Vocab, maxlen: usize) -> Vec<u32> {
    let mut seq = vec![];
    let len = 1 + rng.below(maxlen);
    let mut on_track = true;
    for _ in 0..len {
        if on_track && rng.chance(80, 100) {
            match pick(side, rng, voc.eos, 10) {
                Some(t) => {
                    seq.push(t);
                    if side.consume_token(t).is_err() || side.is_stopped() {
                        on_track = false;
                    }
                }
                None => on_track = false,
            }
        } else {
            on_track = false;
            seq.push(rng.below(voc.n()) as u32);
        }
    }
    seq
}

fn observe(s: &mut Session, e: u32, rng: &mut Rng, w: &W, hist_len: usize) {
    // a random bag of read-only queries, in random order
    let names = ["mask", "mask2", "inval", "validate", "validate_all", "acc", "ffb", "fft",
        "clone_mask", "status", "consume_each", "mask_or_eos"];
    let mut todo: Vec<&str> = names
        .iter()
        .filter(|n| rng.chance(w.get(n), 100))
        .cloned()
        .collect();
    // shuffle
    for i in (1..todo.len()).rev() {
        let j = rng.below(i + 1);
        todo.swap(i, j);
    }
    let _ = hist_len;
    for q in todo {
        if s.m(e).is_error() {
            return;
        }
        let stopped = s.m(e).is_stopped();
        match q {
            "mask" | "mask2" => {
                if !stopped {
                    // in canonical configurations learn the fast-forward tokens first, on a clone
                    if s.cfg_of(e).vocab.canonical && rng.chance(w.get("fft_side"), 100) {
                        s.clone_engine(e, 90, true);
                        s.ff_tokens(90);
                        s.drop_engine(90);
                    }
                    s.mask(e);
                }
            }
            "mask_or_eos" => {
                s.mask_or_eos(e);
            }
            "inval" => s.invalidate(e),
            "validate" => {
                let voc = s.cfg_of(e).vocab.clone();
                let mut side = s.side_clone(e);
                let seq = rand_seq(&mut side, rng, &voc, 5);
                s.validate(e, &seq);
                if rng.chance(50, 100) {
                    // the same sequence committed step by step on a clone
                    s.clone_engine(e, 91, rng.chance(50, 100));
                    s.try_consume(91, &seq);
                    s.drop_engine(91);
                }
            }
            "validate_all" => {
                s.validate_all(e);
            }
            "acc" => {
                s.acc(e);
            }
            "ffb" => {
                // recorded finding C11/forced-marker-bytes-then-mask (and C12/rollback-over-forced-id-token): on a
                // non-canonical vocabulary compute_ff_bytes() leaves the marker form of a forced token-identity
                // terminal in the parser; the targeted episodes exercise exactly that, the random walks stay clear of it
                let canonical = s.cfg_of(e).vocab.canonical;
                let skip = !canonical && !stopped && s.side_clone(e).compute_ff_bytes().contains(&0xFF);
                if !skip {
                    s.ff_bytes(e);
                }
            }
            "fft" => {
                s.ff_tokens(e);
            }
            "status" => s.status(e),
            "clone_mask" => {
                if !stopped {
                    s.clone_engine(e, 92, rng.chance(50, 100));
                    s.mask(92);
                    s.drop_engine(92);
                }
            }
            "consume_each" => {
                if !stopped {
                    consume_each(s, e, rng, w.get("each_max"));
                }
            }
            _ => {}
        }
    }
}

/// For a set of token ids: commit the token on a throw-away clone; one aggregated event.
fn consume_each(s: &mut Session, e: u32, rng: &mut Rng, max: usize) {
    let n = s.cfg_of(e).vocab.n();
    let mut side = s.side_clone(e);
    let allowed = side.compute_mask().map(|m| mask_ids(&m)).unwrap_or_default();
    let mut tried: Vec<u32> = vec![];
    if n <= max {
        tried = (0..n as u32).collect();
    } else {
        tried.extend(allowed.iter().cloned().take(max / 2));
        for _ in 0..max / 2 {
            tried.push(rng.below(n) as u32);
        }
        tried.sort();
        tried.dedup();
    }
    let mut okset = vec![];
    let deep = rng.chance(30, 100);
    // a commit that fails with a resource limit says nothing about the language: such tokens are not reported as tried
    let mut limited: Vec<u32> = vec![];
    for &t in &tried {
        let mut c = if deep { s.eng[&e].0.deep_clone() } else { s.eng[&e].0.clone() };
        match c.consume_token(t) {
            Ok(_) => okset.push(t),
            Err(err) => {
                if vh::err_class(&err.to_string()) == "limit" {
                    limited.push(t);
                }
            }
        }
    }
    tried.retain(|t| !limited.contains(t));
    let v = json!({"ev":"ConsumeEach","e":e,"tried":u32s_json(&tried),"okset":u32s_json(&okset),
        "deep": deep as u32});
    s.tr.ev(v);
}

fn run_episode(ep: &Value, epno: usize, cache: &mut HashMap<String, Vocab>, tr: &mut Trace) -> Value {
    let mut rng = Rng::new(ep["seed"].as_u64().unwrap_or(epno as u64));
    let w = W {
        m: ep["w"]
            .as_object()
            .map(|o| o.iter().map(|(k, v)| (k.clone(), v.as_u64().unwrap_or(0) as usize)).collect())
            .unwrap_or_default(),
    };
    let mut cfgs = vec![];
    let mut cfg_json = vec![];
    for cd in ep["cfgs"].as_array().expect("cfgs") {
        let key = cd["vocab"].to_string();
        let voc = if cd["vocab"]["kind"] == "lang" {
            vh::sess::lang_vocab(&ep["gram"], &cd["vocab"], ep["seed"].as_u64().unwrap_or(0))
        } else {
            cache.entry(key).or_insert_with(|| from_desc(&cd["vocab"])).clone()
        };
        let vid = cd["vid"].as_u64().unwrap_or(0) as u32;
        let bc = (0..=254u8).all(|b| voc.words.iter().any(|w| w.len() == 1 && w[0] == b));
        let mut cj = json!({"n": voc.n(), "eos": voc.eos, "eosx": voc.all_eos(), "canon": voc.canonical as u32, "bc": bc as u32});
        if ep["log_vocab"].as_u64().unwrap_or(0) != 0 {
            cj["tok"] = voc.to_json()["tok"].clone();
        }
        // the grammar neither names tokens nor lets a lexeme end at EOS: a committed EOS token always ends the run
        cj["eosplain"] = json!(ep["eos_plain"].as_u64().unwrap_or(0));
        cfg_json.push(cj);
        match Cfg::new(voc, vid, cd) {
            Ok(c) => cfgs.push(c),
            Err(e) => {
                return json!({"skipped": format!("factory: {e}")});
            }
        }
    }
    let mut init = json!({"ev":"Init","ep":epno,"mode":ep["mode"],"gid":ep["gid"],"cfgs":cfg_json});
    if let Some(o) = ep["init_extra"].as_object() {
        for (k, v) in o {
            init[k] = v.clone();
        }
    }
    tr.ev(init);
    let ncfg = cfgs.len();
    let mut s = Session::new(cfgs, ep["gram"].clone(), tr);
    let steps = ep["steps"].as_u64().unwrap_or(20) as usize;

    // engines 1..=ncfg are the lock-step mains (one per configuration, same class `vid` when the
    // property says they must agree); 50.. are shadows built later
    let mut mains: Vec<u32> = vec![];
    for c in 0..ncfg {
        let e = 1 + c as u32;
        if !s.new_engine(e, c) {
            return json!({"compiled": 0, "events": s.nev});
        }
        mains.push(e);
    }
    // tokenisation probes (C19): plain text vs marker forms
    for pr in ep["tok_probes"].as_array().unwrap_or(&vec![]) {
        let b = vh::json_bytes(&pr["b"]);
        let env = s.cfgs[0].env.clone();
        if pr["want"].is_null() {
            let toks = env.tokenize_bytes(&b);
            s.tr.ev(json!({"ev":"Tokenize","c":0,"b":vh::bytes_json(&b),"toks":u32s_json(&toks)}));
        } else {
            let (toks, nfixed) = env.tokenize_bytes_marker(&b);
            s.tr.ev(json!({"ev":"TokenizeMarker","c":0,"b":vh::bytes_json(&b),"toks":u32s_json(&toks),"nfixed":nfixed,
                           "want":pr["want"]}));
        }
    }
    // scripted episode (targeted histories, and behaviours generated by TLC): a list of operations on
    // engine 1; "fresh" builds engine 50 from scratch, replays the surviving history and observes
    if let Some(script) = ep["script"].as_array() {
        let mut hist: Vec<u32> = vec![];
        let mut dfs_nodes = 0usize;
        for op in script {
            let name = op[0].as_str().unwrap_or("");
            let arg = op[1].as_u64().unwrap_or(0);
            // after a failure the remaining calls are still made: a failed engine must keep failing
            if s.m(1).is_error() && name == "fresh" {
                continue;
            }
            match name {
                "mask" => {
                    s.mask(1);
                }
                "acc" => {
                    s.acc(1);
                }
                "ffb" => {
                    s.ff_bytes(1);
                }
                "fft" => {
                    s.ff_tokens(1);
                }
                "inval" => s.invalidate(1),
                // ["try", 0, [ids]] : try_consume_tokens
                "try" => {
                    let seq: Vec<u32> = op[2].as_array().map(|a| a.iter().filter_map(|x| x.as_u64()).map(|x| x as u32).collect()).unwrap_or_default();
                    if let Some(n) = s.try_consume(1, &seq) {
                        hist.extend_from_slice(&seq[..n]);
                    }
                }
                "validate_all" => {
                    s.validate_all(1);
                }
                "status" => s.status(1),
                "consume" => {
                    if s.consume(1, arg as u32) {
                        hist.push(arg as u32);
                    }
                }
                // the n-th allowed token (by a side clone's mask), n taken modulo the mask size
                "consume_nth" => {
                    let mut side = s.side_clone(1);
                    let ids = side.compute_mask().map(|m| mask_ids(&m)).unwrap_or_default();
                    if !ids.is_empty() {
                        let t = ids[arg as usize % ids.len()];
                        if s.consume(1, t) {
                            hist.push(t);
                        }
                    }
                }
                "rollback" => {
                    if s.rollback(1, arg as usize) && arg as usize <= hist.len() {
                        hist.truncate(hist.len() - arg as usize);
                    }
                }
                "reset" => {
                    if s.reset(1) {
                        hist.clear();
                    }
                }
                // exhaustive walk: every string over the branch tokens up to the given depth that the masks allow;
                // mask + accepting flag observed at every node (op = ["dfs", depth, [token ids], node budget])
                "dfs" => {
                    let branch: Vec<u32> = op[2].as_array().map(|a| a.iter().filter_map(|x| x.as_u64()).map(|x| x as u32).collect())
                        .unwrap_or_default();
                    let mut budget = op[3].as_u64().unwrap_or(1500) as usize;
                    dfs(&mut s, arg as usize, &branch, &mut budget, &mut dfs_nodes);
                }
                "fresh" => {
                    s.new_engine(50, 0);
                    for &t in &hist.clone() {
                        s.consume(50, t);
                    }
                    if !s.m(50).is_stopped() {
                        s.mask(50);
                    }
                    s.acc(50);
                    s.ff_bytes(50);
                    s.drop_engine(50);
                }
                _ => {}
            }
        }
        return json!({"compiled":1,"events":s.nev,"commits":hist.len(),"rollbacks":0,"len":hist.len(),"stopped":0,
            "dfs_nodes": dfs_nodes, "error": s.m(1).is_error() as u32});
    }
    let mut hist: Vec<u32> = vec![];
    let mut shadows: Vec<u32> = vec![];
    let mut next_shadow = 50u32;
    let eos = s.cfg_of(1).vocab.eos;
    let eos_pct = ep["eos_pct"].as_u64().unwrap_or(15) as usize;
    let mut hints = Hints {
        all: ep["hints"].as_array().map(|a| a.iter().map(vh::json_bytes).filter(|h| !h.is_empty()).collect()).unwrap_or_default(),
        cur: None,
        pct: ep["hint_pct"].as_u64().unwrap_or(25) as usize,
    };
    let voc1 = s.cfg_of(1).vocab.clone();
    let mut n_commits = 0;
    let mut n_rollbacks = 0;
    let mut stopped_normally = false;

    for _step in 0..steps {
        let all: Vec<u32> = mains.iter().chain(shadows.iter()).cloned().collect();
        for &e in &all {
            observe(&mut s, e, &mut rng, &w, hist.len());
        }
        if all.iter().any(|&e| s.m(e).is_error()) {
            break;
        }
        let stopped = s.m(1).is_stopped();
        // choose the next mutation
        let r = rng.below(100);
        let wr = w.get("rollback");
        let wreset = w.get("reset");
        if (stopped && wr + wreset > 0) || (r < wr + wreset && !hist.is_empty()) {
            let do_reset = rng.below(wr + wreset) >= wr;
            let k = if do_reset {
                hist.len()
            } else if rng.chance(w.get("rollback_over"), 1000) {
                hist.len() + 1 + rng.below(3)
            } else if rng.chance(50, 100) {
                1 + rng.below(std::cmp::min(3, hist.len().max(1)))
            } else {
                rng.below(hist.len() + 1)
            };
            for &e in &all {
                if do_reset {
                    s.reset(e);
                } else {
                    s.rollback(e, k);
                }
            }
            n_rollbacks += 1;
            if k > hist.len() {
                break;
            }
            hist.truncate(hist.len() - k);
            hints.cur = None;
            // after a rollback: a private fresh engine replays the same history and follows
            if rng.chance(w.get("shadow_after_rollback"), 100) && shadows.len() < 2 {
                let e = next_shadow;
                next_shadow += 1;
                let c = rng.below(ncfg);
                s.new_engine(e, c);
                if !hist.is_empty() {
                    if rng.chance(50, 100) {
                        s.consume_tokens(e, &hist);
                    } else {
                        for &t in &hist.clone() {
                            s.consume(e, t);
                        }
                    }
                }
                shadows.push(e);
            }
            continue;
        }
        if stopped {
            stopped_normally = true;
            // protocol probes on a clone: calls after a stop
            if rng.chance(w.get("after_stop"), 100) {
                s.clone_engine(1, 93, false);
                match rng.below(4) {
                    0 => {
                        s.mask(93);
                    }
                    1 => {
                        s.consume(93, rng.below(s.cfg_of(1).vocab.n()) as u32);
                    }
                    2 => {
                        s.try_consume(93, &[0, 1]);
                    }
                    _ => {
                        s.mask_or_eos(93);
                    }
                }
                s.status(93);
                s.acc(93);
                s.drop_engine(93);
            }
            break;
        }
        if rng.chance(w.get("shadow"), 100) && shadows.len() < 2 {
            let e = next_shadow;
            next_shadow += 1;
            let c = rng.below(ncfg);
            s.new_engine(e, c);
            if !hist.is_empty() {
                s.consume_tokens(e, &hist);
            }
            shadows.push(e);
            continue;
        }
        if rng.chance(w.get("drop_shadow"), 100) && !shadows.is_empty() {
            let e = shadows.remove(0);
            s.drop_engine(e);
        }
        let all: Vec<u32> = mains.iter().chain(shadows.iter()).cloned().collect();
        // commit
        let mut side = s.side_clone(1);
        if rng.chance(w.get("consume_ff"), 100) && s.cfg_of(1).vocab.canonical {
            let mut toks = vec![];
            for &e in &all {
                toks = s.consume_ff(e);
            }
            hist.extend_from_slice(&toks);
            n_commits += 1;
            continue;
        }
        if rng.chance(w.get("bad_token"), 1000) {
            // a token outside the mask (or out of range), on a clone: must fail and stay failed
            let n = s.cfg_of(1).vocab.n() as u32;
            let allowed = side.compute_mask().map(|m| mask_ids(&m)).unwrap_or_default();
            let mut t = rng.below(n as usize + 2) as u32;
            for _ in 0..20 {
                if !allowed.contains(&t) {
                    break;
                }
                t = rng.below(n as usize + 2) as u32;
            }
            s.clone_engine(1, 94, rng.chance(50, 100));
            s.consume(94, t);
            s.status(94);
            s.mask(94);
            s.rollback(94, 0);
            s.drop_engine(94);
        }
        // C03 on JSON schemas: a non-accepting state in which only whitespace is offered, again and again, can never be
        // completed (whitespace is never required in JSON): reported as a `WsTrap` event, for which the protocol
        // specification has no action.  Looked for on a throw-away clone.
        if ep["gram"]["kind"] == "json" && ep["ws_trap"].as_u64().unwrap_or(0) != 0 {
            let mut probe = s.side_clone(1);
            let mut trapped = 0;
            for _ in 0..4 {
                let ids = match probe.compute_mask() {
                    Ok(m) => mask_ids(&m),
                    Err(_) => break,
                };
                let ws_only = !ids.is_empty()
                    && ids.iter().all(|&t| {
                        let w = &voc1.words[t as usize];
                        !w.is_empty() && w.iter().all(|b| matches!(b, 32 | 9 | 10 | 13))
                    });
                if !ws_only || probe.is_accepting().unwrap_or(true) || probe.consume_token(ids[0]).is_err() {
                    break;
                }
                trapped += 1;
            }
            if trapped == 4 {
                s.tr.ev(json!({"ev":"WsTrap","e":1,"steps":trapped}));
                break;
            }
        }
        let t = match pick_h(&mut side, &mut rng, &voc1, eos_pct, &mut hints) {
            Some(t) => t,
            None => break,
        };
        let kind = rng.below(100);
        if kind < w.get("commit_batch") {
            // two tokens in one call
            let mut seq = vec![t];
            if t != eos && side.consume_token(t).is_ok() && !side.is_stopped() {
                if let Some(t2) = pick(&mut side, &mut rng, eos, eos_pct) {
                    seq.push(t2);
                }
            }
            for &e in &all {
                s.consume_tokens(e, &seq);
            }
            hist.extend_from_slice(&seq);
        } else if kind < w.get("commit_batch") + w.get("commit_try") {
            let mut seq = vec![t];
            if rng.chance(50, 100) {
                seq.push(rng.below(s.cfg_of(1).vocab.n()) as u32);
            }
            let mut n = 0;
            for &e in &all {
                n = s.try_consume(e, &seq).unwrap_or(0);
            }
            hist.extend_from_slice(&seq[..n]);
        } else {
            for &e in &all {
                s.consume(e, t);
            }
            hist.push(t);
        }
        n_commits += 1;
    }
    // closing observations so the last state is also compared
    let all: Vec<u32> = mains.iter().chain(shadows.iter()).cloned().collect();
    for &e in &all {
        if !s.m(e).is_error() {
            s.acc(e);
            s.status(e);
        }
    }
    json!({"compiled":1,"events":s.nev,"commits":n_commits,"rollbacks":n_rollbacks,
        "len":hist.len(),"stopped":stopped_normally as u32,
        "error": all.iter().any(|&e| s.m(e).is_error()) as u32})
}

fn main() {
    let args: Vec<String> = std::env::args().collect();
    let job = vh::read_job(&args[1]);
    let mut tr = Trace::create(&args[2]);
    let mut cache = HashMap::new();
    let mut stats = vec![];
    // Watchdog: an episode that does not finish within its time limit (the recorded finding C20/force-bytes-unbounded-loop
    // is an endless loop that allocates) ends the process with exit code 3 after reporting which episode it was; the
    // episodes before it are complete in the trace (it is flushed after every episode), the caller restarts after it.
    let limit = job["episode_limit_s"].as_u64().unwrap_or(90);
    let cur = std::sync::Arc::new(std::sync::Mutex::new((0usize, std::time::Instant::now(), Vec::<Value>::new())));
    {
        let cur = cur.clone();
        std::thread::spawn(move || loop {
            std::thread::sleep(std::time::Duration::from_millis(500));
            let g = cur.lock().unwrap();
            if g.1.elapsed().as_secs() >= limit {
                println!("{}", json!({"hung": g.0, "episodes": g.2, "events": 0}));
                std::process::exit(3);
            }
        });
    }
    for (i, ep) in job["episodes"].as_array().expect("episodes").iter().enumerate() {
        {
            let mut g = cur.lock().unwrap();
            g.0 = i;
            g.1 = std::time::Instant::now();
        }
        let st = run_episode(ep, i, &mut cache, &mut tr);
        tr.flush();
        cur.lock().unwrap().2.push(st.clone());
        stats.push(st);
    }
    {
        // (no false alarm from the watchdog while the summary is printed)
        cur.lock().unwrap().1 = std::time::Instant::now();
    }
    tr.flush();
    println!("{}", json!({"episodes": stats, "events": tr.n}));
}


fn dfs(s: &mut Session, depth: usize, branch: &[u32], budget: &mut usize, nodes: &mut usize) {
    if *budget == 0 || s.m(1).is_error() {
        return;
    }
    *budget -= 1;
    *nodes += 1;
    let stopped = s.m(1).is_stopped();
    let mask = if stopped { None } else { s.mask(1) };
    s.acc(1);
    if depth == 0 {
        return;
    }
    if let Some(ids) = mask {
        for &t in branch {
            if ids.contains(&t) {
                if !s.consume(1, t) {
                    return;
                }
                dfs(s, depth - 1, branch, budget, nodes);
                if !s.rollback(1, 1) {
                    return;
                }
            }
        }
    }
}
