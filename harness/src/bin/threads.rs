//! C14 driver: clones (shared lexer via clone(), private via deep_clone()) driven from real threads.
//! usage: threads <job.json> <out.ndjson>
//! episode: {"gid":..,"gram":{..},"vocab":{..},"clones":n,"ops":n,"seed":n}
//! Every event is logged at the return of the call, under one global mutex (so the log is a
//! linearisation that respects each engine's own order). Validation: Trace_EngineRel (func view):
//! every clone's answers must be the function of ITS OWN history that private fresh engines show.
use llguidance::Matcher;
use serde_json::{json, Value};
use std::collections::HashMap;
use std::sync::{Arc, Mutex};
use vh::rng::Rng;
use vh::sess::{mask_ids, Cfg};
use vh::vocab::{from_desc, Vocab};
use vh::{bytes_json, err_class, u32s_json, Trace};

type Log = Arc<Mutex<Vec<Value>>>;

fn post(log: &Log, e: u32, m: &Matcher, mut v: Value) {
    v["st"] = json!(m.stop_reason().to_string());
    v["er"] = json!(m.is_error() as u32);
    v["e"] = json!(e);
    log.lock().unwrap().push(v);
}

fn res_of<T>(v: &mut Value, r: &anyhow::Result<T>) {
    match r {
        Ok(_) => v["ok"] = json!(1),
        Err(e) => {
            v["ok"] = json!(0);
            v["cls"] = json!(err_class(&e.to_string()));
        }
    }
}

fn do_mask(log: &Log, e: u32, m: &mut Matcher) -> Option<Vec<u32>> {
    let r = m.compute_mask();
    let mut v = json!({"ev":"Mask"});
    res_of(&mut v, &r);
    let out = r.ok().map(|x| {
        v["nb"] = json!(x.len());
        let ids = mask_ids(&x);
        v["set"] = u32s_json(&ids);
        v["sl"] = json!(0);
        ids
    });
    post(log, e, m, v);
    out
}

fn do_consume(log: &Log, e: u32, m: &mut Matcher, t: u32) -> bool {
    let r = m.consume_token(t);
    let mut v = json!({"ev":"Consume","t":t});
    res_of(&mut v, &r);
    post(log, e, m, v);
    r.is_ok()
}

fn do_acc(log: &Log, e: u32, m: &mut Matcher) {
    let r = m.is_accepting();
    let mut v = json!({"ev":"Acc"});
    res_of(&mut v, &r);
    if let Ok(a) = &r {
        v["v"] = json!(*a as u32);
    }
    post(log, e, m, v);
}

fn do_validate(log: &Log, e: u32, m: &mut Matcher, seq: &[u32]) {
    let r = m.validate_tokens(seq);
    let mut v = json!({"ev":"Validate","seq":u32s_json(seq)});
    res_of(&mut v, &r);
    if let Ok(n) = &r {
        v["n"] = json!(n);
    }
    post(log, e, m, v);
}

fn do_rollback(log: &Log, e: u32, m: &mut Matcher, k: usize) -> bool {
    let r = m.rollback(k);
    let mut v = json!({"ev":"Rollback","k":k});
    res_of(&mut v, &r);
    post(log, e, m, v);
    r.is_ok()
}

fn do_ffb(log: &Log, e: u32, m: &mut Matcher) {
    // recorded finding C11/forced-marker-bytes-then-mask: the query is skipped where it would leave the marker form
    // of a forced token-identity terminal in the parser (non-canonical vocabularies)
    if !m.tok_env().map(|t| t.tokenize_is_canonical()).unwrap_or(true) && m.deep_clone().compute_ff_bytes().contains(&0xFF) {
        return;
    }
    let b = m.compute_ff_bytes();
    post(log, e, m, json!({"ev":"FFBytes","b":bytes_json(&b)}));
}

fn pick(side: &mut Matcher, rng: &mut Rng, eos: u32) -> Option<u32> {
    let m = side.compute_mask().ok()?;
    let ids: Vec<u32> = mask_ids(&m).into_iter().filter(|&t| t != eos).collect();
    if ids.is_empty() {
        None
    } else {
        Some(*rng.pick(&ids))
    }
}

/// the random life of one clone on its own thread; returns its final history
fn worker(log: Log, e: u32, mut m: Matcher, mut hist: Vec<u32>, seed: u64, ops: usize, voc: Vocab) -> (Matcher, Vec<u32>) {
    let mut rng = Rng::new(seed);
    for _ in 0..ops {
        if m.is_error() {
            break;
        }
        if m.is_stopped() {
            if hist.is_empty() {
                break;
            }
            let k = 1 + rng.below(hist.len().min(3));
            if !do_rollback(&log, e, &mut m, k) {
                break;
            }
            hist.truncate(hist.len() - k);
            continue;
        }
        match rng.below(10) {
            0..=2 => {
                do_mask(&log, e, &mut m);
            }
            3 => do_acc(&log, e, &mut m),
            4 => {
                let seq: Vec<u32> = (0..1 + rng.below(3)).map(|_| rng.below(voc.n()) as u32).collect();
                do_validate(&log, e, &mut m, &seq);
            }
            5 => do_ffb(&log, e, &mut m),
            6 => {
                if !hist.is_empty() {
                    let k = 1 + rng.below(hist.len().min(3));
                    if do_rollback(&log, e, &mut m, k) {
                        hist.truncate(hist.len() - k);
                    }
                }
            }
            _ => {
                let mut side = m.deep_clone();
                if let Some(t) = pick(&mut side, &mut rng, voc.eos) {
                    if do_consume(&log, e, &mut m, t) {
                        hist.push(t);
                    }
                }
            }
        }
    }
    (m, hist)
}

fn run_episode(ep: &Value, epno: usize, cache: &mut HashMap<String, Vocab>, tr: &mut Trace) -> Value {
    let seed = ep["seed"].as_u64().unwrap_or(epno as u64);
    let mut rng = Rng::new(seed);
    let gram = ep["gram"].clone();
    let voc = if ep["vocab"]["kind"] == "lang" {
        vh::sess::lang_vocab(&gram, &ep["vocab"], seed)
    } else {
        cache.entry(ep["vocab"].to_string()).or_insert_with(|| from_desc(&ep["vocab"])).clone()
    };
    let bc = (0..=254u8).all(|b| voc.words.iter().any(|w| w.len() == 1 && w[0] == b));
    tr.ev(json!({"ev":"Init","ep":epno,"mode":"C14","gid":ep["gid"],
                 "cfgs":[{"n":voc.n(),"eos":voc.eos,"canon":voc.canonical as u32,"bc":bc as u32}]}));
    let cfg = match Cfg::new(voc.clone(), 0, &json!({"slices": ep["slices"]})) {
        Ok(c) => c,
        Err(_) => return json!({"skipped":1}),
    };
    let log: Log = Arc::new(Mutex::new(vec![]));
    let base = cfg.matcher(&gram);
    post(&log, 1, &base, json!({"ev":"New","c":0,"vid":0,"ok":(!base.is_error()) as u32,"cls":""}));
    if base.is_error() {
        for v in log.lock().unwrap().drain(..) {
            tr.ev(v);
        }
        return json!({"compiled":0});
    }
    // a family of clones with diverging histories, built sequentially
    let n_clones = ep["clones"].as_u64().unwrap_or(4) as usize;
    let mut fam: Vec<(u32, Matcher, Vec<u32>)> = vec![(1, base, vec![])];
    for k in 0..n_clones.saturating_sub(1) {
        let src = rng.below(fam.len());
        let deep = rng.chance(35, 100);
        let e = 2 + k as u32;
        let m2 = if deep { fam[src].1.deep_clone() } else { fam[src].1.clone() };
        let h2 = fam[src].2.clone();
        post(&log, e, &m2, json!({"ev":"Clone","from":fam[src].0,"deep":deep as u32}));
        fam.push((e, m2, h2));
        // diverge
        let idx = fam.len() - 1;
        for _ in 0..rng.below(4) {
            let (e, m, h) = &mut fam[idx];
            if m.is_stopped() {
                break;
            }
            let mut side = m.deep_clone();
            if let Some(t) = pick(&mut side, &mut rng, voc.eos) {
                if do_consume(&log, *e, m, t) {
                    h.push(t);
                }
            }
        }
    }
    // real threads
    let ops = ep["ops"].as_u64().unwrap_or(12) as usize;
    let mut handles = vec![];
    for (e, m, h) in fam.into_iter() {
        let lg = log.clone();
        let v = voc.clone();
        let s = rng.next();
        handles.push(std::thread::spawn(move || (e, worker(lg, e, m, h, s, ops, v))));
    }
    let mut finals = vec![];
    for h in handles {
        if let Ok(x) = h.join() {
            finals.push(x);
        }
    }
    // private fresh engines replay each clone's final history
    for (e, (mut m, hist)) in finals.into_iter() {
        if m.is_error() {
            continue;
        }
        let fe = 100 + e;
        let mut f = cfg.matcher(&gram);
        post(&log, fe, &f, json!({"ev":"New","c":0,"vid":0,"ok":1,"cls":""}));
        let mut ok = true;
        for &t in &hist {
            if !do_consume(&log, fe, &mut f, t) {
                ok = false;
                break;
            }
        }
        if ok {
            if !m.is_stopped() {
                do_mask(&log, e, &mut m);
            }
            if !f.is_stopped() {
                do_mask(&log, fe, &mut f);
            }
            do_acc(&log, e, &mut m);
            do_acc(&log, fe, &mut f);
            do_ffb(&log, e, &mut m);
            do_ffb(&log, fe, &mut f);
        }
    }
    let evs: Vec<Value> = log.lock().unwrap().drain(..).collect();
    let n = evs.len();
    for v in evs {
        tr.ev(v);
    }
    json!({"compiled":1,"events":n,"clones":n_clones})
}

fn main() {
    let args: Vec<String> = std::env::args().collect();
    let job = vh::read_job(&args[1]);
    let mut tr = Trace::create(&args[2]);
    let mut cache = HashMap::new();
    let mut stats = vec![];
    for (i, ep) in job["episodes"].as_array().expect("episodes").iter().enumerate() {
        stats.push(run_episode(ep, i, &mut cache, &mut tr));
    }
    tr.flush();
    println!("{}", json!({"episodes": stats, "events": tr.n}));
}
