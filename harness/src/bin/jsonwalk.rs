//! C06 / C07 driver. usage: jsonwalk <job.json> <out.ndjson>
//! per episode: {"gid":.., "schema_text":.., "pats":[..], "vocab":{..}, "outputs":K, "budget":N, "seed":..,
//!               "instances":[{"text":..}], "hints":[[bytes]..]}
//! Output events are complete outputs reached through the engine's own masks (random walks);
//! Instance events are candidate texts with the engine's accept/reject verdict.
use serde_json::{json, Value};
use std::collections::HashMap;
use vh::rng::Rng;
use vh::sess::{mask_ids, Cfg};
use vh::vocab::{from_desc, Vocab};
use vh::{bytes_json, err_class, Trace};

fn structural(b: u8) -> bool {
    matches!(b, b'"' | b'}' | b']' | b',' | b':' | b'{' | b'[')
}

fn main() {
    let args: Vec<String> = std::env::args().collect();
    let job = vh::read_job(&args[1]);
    let mut tr = Trace::create(&args[2]);
    let mut cache: HashMap<String, Vocab> = HashMap::new();
    let mut stats = json!({"episodes":0,"compiled":0,"outputs":0,"unfinished":0,"instances":0,"accepted":0,"walk_errors":0});
    let bump = |k: &str, s: &mut Value| {
        s[k] = json!(s[k].as_u64().unwrap_or(0) + 1);
    };
    for ep in job["episodes"].as_array().expect("episodes") {
        bump("episodes", &mut stats);
        let text = ep["schema_text"].as_str().unwrap_or("");
        let gram = json!({"kind": "json", "text": text});
        let seed = ep["seed"].as_u64().unwrap_or(1);
        let mut rng = Rng::new(seed);
        let voc = if ep["vocab"]["kind"] == "lang" {
            vh::sess::lang_vocab(&gram, &ep["vocab"], seed)
        } else {
            cache.entry(ep["vocab"].to_string()).or_insert_with(|| from_desc(&ep["vocab"])).clone()
        };
        tr.ev(json!({"ev":"Init","gid":ep["gid"],"schema":bytes_json(text.as_bytes()),"pats":ep["pats"],
                     "stext": text.chars().map(|c| if c.is_ascii() { c } else { '?' }).collect::<String>()}));
        let cfg = match Cfg::new(voc.clone(), 0, &json!({"slices": ep["slices"]})) {
            Ok(c) => c,
            Err(_) => continue,
        };
        let m0 = cfg.matcher(&gram);
        let compiled = !m0.is_error();
        let cls = m0.get_error().map(|e| err_class(&e)).unwrap_or_default();
        tr.ev(json!({"ev":"Compile","ok":compiled as u32,"cls":cls}));
        if !compiled {
            continue;
        }
        bump("compiled", &mut stats);
        let hints: Vec<Vec<u8>> = ep["hints"].as_array().map(|a| a.iter().map(vh::json_bytes).collect()).unwrap_or_default();
        let budget = ep["budget"].as_u64().unwrap_or(80) as usize;
        for _ in 0..ep["outputs"].as_u64().unwrap_or(0) {
            let mut m = m0.deep_clone();
            let mut out: Vec<u8> = vec![];
            let mut done = false;
            let mut cur_hint: Option<(Vec<u8>, usize)> = None;
            let eager = rng.chance(50, 100);
            for step in 0..budget {
                if m.is_stopped() {
                    done = m.stop_reason().is_ok() && !m.is_error();
                    break;
                }
                let mask = match m.compute_mask() {
                    Ok(x) => x,
                    Err(_) => {
                        bump("walk_errors", &mut stats);
                        break;
                    }
                };
                let ids = mask_ids(&mask);
                if ids.is_empty() {
                    break;
                }
                let eos_ok = ids.contains(&voc.eos);
                if eos_ok && (ids.len() == 1 || rng.chance(if eager { 60 } else { 25 }, 100)) {
                    if m.consume_token(voc.eos).is_ok() {
                        done = true;
                    }
                    break;
                }
                let cands: Vec<u32> = ids.iter().cloned().filter(|&t| t != voc.eos).collect();
                if cands.is_empty() {
                    break;
                }
                // literal-directed choice
                if cur_hint.is_none() && !hints.is_empty() && rng.chance(30, 100) {
                    cur_hint = Some((rng.pick(&hints).clone(), 0));
                }
                let mut chosen: Option<u32> = None;
                if let Some((h, pos)) = cur_hint.clone() {
                    let rest = &h[pos..];
                    let hc: Vec<u32> = cands.iter().cloned().filter(|&t| {
                        let b = &voc.words[t as usize];
                        !b.is_empty() && b[0] != 0xFF && rest.starts_with(b)
                    }).collect();
                    if hc.is_empty() {
                        cur_hint = None;
                    } else {
                        let t = *rng.pick(&hc);
                        let np = pos + voc.words[t as usize].len();
                        cur_hint = if np >= h.len() { None } else { Some((h, np)) };
                        chosen = Some(t);
                    }
                }
                let t = match chosen {
                    Some(t) => t,
                    None => {
                        // prefer structural tokens more and more as the budget is used up
                        let pressure = 2 + 12 * step / budget.max(1);
                        let st: Vec<u32> = cands.iter().cloned().filter(|&t| {
                            voc.words[t as usize].first().map(|&b| structural(b)).unwrap_or(false)
                        }).collect();
                        if !st.is_empty() && rng.chance(pressure * 6, 100) {
                            *rng.pick(&st)
                        } else {
                            *rng.pick(&cands)
                        }
                    }
                };
                if m.consume_token(t).is_err() {
                    bump("walk_errors", &mut stats);
                    break;
                }
                if !voc.is_special(t) {
                    out.extend_from_slice(&voc.words[t as usize]);
                }
            }
            if !done && m.is_stopped() && !m.is_error() {
                done = true;
            }
            if done {
                bump("outputs", &mut stats);
                tr.ev(json!({"ev":"Output","b":bytes_json(&out),
                    "text": String::from_utf8_lossy(&out).chars().map(|c| if c.is_ascii() && !c.is_control() { c } else { '?' }).collect::<String>()}));
            } else {
                bump("unfinished", &mut stats);
            }
        }
        let mut m = m0.deep_clone();
        for inst in ep["instances"].as_array().unwrap_or(&vec![]) {
            let text = inst["text"].as_str().unwrap_or("");
            let mut toks = cfg.env.tokenize_bytes(text.as_bytes());
            toks.push(voc.eos);
            let acc = match m.validate_tokens(&toks) {
                Ok(n) => (n == toks.len()) as u32,
                Err(_) => 2,
            };
            if m.is_error() {
                m = m0.deep_clone();
            }
            bump("instances", &mut stats);
            if acc == 1 {
                bump("accepted", &mut stats);
            }
            tr.ev(json!({"ev":"Instance","b":bytes_json(text.as_bytes()),"acc":acc,"ntok":toks.len(),
                "text": text.chars().map(|c| if c.is_ascii() && !c.is_control() { c } else { '?' }).collect::<String>()}));
        }
    }
    tr.flush();
    stats["events"] = json!(tr.n);
    println!("{}", stats);
}
