//! Vocabularies and tokenizer environments built on the public `TokenizerEnv` trait.
use serde_json::{json, Value};
use std::collections::HashMap;
use std::sync::Arc;
use toktrie::{TokEnv, TokRxInfo, TokTrie, TokenId, TokenizerEnv};

pub struct VEnv {
    pub trie: TokTrie,
    pub canonical: bool,
}

impl TokenizerEnv for VEnv {
    fn tok_trie(&self) -> &TokTrie {
        &self.trie
    }
    fn tokenize_bytes(&self, s: &[u8]) -> Vec<TokenId> {
        self.trie.greedy_tokenize(s)
    }
    fn tokenize_is_canonical(&self) -> bool {
        self.canonical
    }
}

#[derive(Clone)]
pub struct Vocab {
    pub words: Vec<Vec<u8>>,
    pub eos: u32,
    pub canonical: bool,
    /// further end-of-sequence tokens (TokTrie::with_eos_tokens); `eos` stays the primary one
    pub eos_extra: Vec<u32>,
}

impl Vocab {
    pub fn env(&self) -> TokEnv {
        let info = TokRxInfo::new(self.words.len() as u32, self.eos);
        let mut trie = TokTrie::from(&info, &self.words);
        if !self.eos_extra.is_empty() {
            let mut all = vec![self.eos];
            all.extend_from_slice(&self.eos_extra);
            trie = trie.with_eos_tokens(&all);
        }
        Arc::new(VEnv { trie, canonical: self.canonical })
    }
    pub fn n(&self) -> usize {
        self.words.len()
    }
    /// `"eos_extra_names": ["<|user|>", ..]` makes the special tokens with these names further EOS tokens
    pub fn add_auto_eos(&mut self, d: &Value) {
        if let Some(names) = d["eos_extra_names"].as_array() {
            for nm in names.iter().filter_map(|x| x.as_str()) {
                let mut want = vec![0xFFu8];
                want.extend_from_slice(nm.as_bytes());
                if let Some(t) = self.words.iter().position(|w| *w == want) {
                    let t = t as u32;
                    if t != self.eos && !self.eos_extra.contains(&t) {
                        self.eos_extra.push(t);
                    }
                }
            }
        }
    }
    pub fn all_eos(&self) -> Vec<u32> {
        let mut all = vec![self.eos];
        all.extend_from_slice(&self.eos_extra);
        all
    }
    pub fn is_special(&self, t: u32) -> bool {
        self.words[t as usize].first() == Some(&0xFF)
    }
    /// Encoding logged in `Init` events (Appendix B of DESIGN.md).
    pub fn to_json(&self) -> Value {
        json!({
            "n": self.words.len(),
            "eos": self.eos,
            "eosx": self.all_eos(),
            "canon": self.canonical as u32,
            "tok": self.words.iter().map(|w| crate::bytes_json(w)).collect::<Vec<_>>(),
        })
    }
    /// Ids of ordinary single-byte tokens, by byte.
    pub fn byte_tokens(&self) -> HashMap<u8, u32> {
        let mut m = HashMap::new();
        for (i, w) in self.words.iter().enumerate() {
            if w.len() == 1 && w[0] != 0xFF {
                m.entry(w[0]).or_insert(i as u32);
            }
        }
        m
    }
}

fn specials() -> Vec<Vec<u8>> {
    vec![
        b"\xFF<|tool|>".to_vec(),
        b"\xFF<|user|>".to_vec(),
        b"\xFF<a>".to_vec(),
        b"\xFF<[3]>".to_vec(),
        b"\xFF<|end|>".to_vec(),
    ]
}

/// 256 single bytes (id = byte) followed by special tokens; EOS is the last id.
pub fn byte_vocab(canonical: bool) -> Vocab {
    let mut words: Vec<Vec<u8>> = (0..=255u8).map(|x| vec![x]).collect();
    words.extend(specials());
    let eos = words.len() as u32 - 1;
    Vocab { words, eos, canonical, eos_extra: vec![] }
}

/// Byte-pair encoding trained at run time on a corpus file: the offline stand-in for a
/// truncated real BPE vocabulary. All 256 single bytes are included (byte-complete).
pub fn bpe_vocab(corpus: &[u8], merges: usize, canonical: bool) -> Vocab {
    // pre-split into words at whitespace boundaries (space attaches to the following word)
    let mut counts: HashMap<Vec<u8>, usize> = HashMap::new();
    let mut cur: Vec<u8> = Vec::new();
    for &b in corpus {
        let is_ws = b == b' ' || b == b'\n' || b == b'\t';
        if is_ws && !cur.is_empty() && !(cur.len() == 1 && cur[0] == b' ') {
            *counts.entry(std::mem::take(&mut cur)).or_default() += 1;
        }
        cur.push(b);
        if b == b'\n' {
            *counts.entry(std::mem::take(&mut cur)).or_default() += 1;
        }
    }
    if !cur.is_empty() {
        *counts.entry(cur).or_default() += 1;
    }
    let mut words: Vec<(Vec<u32>, usize)> = counts
        .into_iter()
        .map(|(w, c)| (w.iter().map(|&b| b as u32).collect(), c))
        .collect();
    words.sort();
    let mut toks: Vec<Vec<u8>> = (0..=255u8).map(|x| vec![x]).collect();
    for _ in 0..merges {
        let mut pc: HashMap<(u32, u32), usize> = HashMap::new();
        for (w, c) in &words {
            for p in w.windows(2) {
                *pc.entry((p[0], p[1])).or_default() += c;
            }
        }
        let best = pc.iter().max_by_key(|(&k, &v)| (v, std::cmp::Reverse(k)));
        let (&(a, b), &cnt) = match best {
            Some(x) => x,
            None => break,
        };
        if cnt < 2 {
            break;
        }
        let id = toks.len() as u32;
        let mut nb = toks[a as usize].clone();
        nb.extend_from_slice(&toks[b as usize]);
        toks.push(nb);
        for (w, _) in words.iter_mut() {
            let mut i = 0;
            let mut out = Vec::with_capacity(w.len());
            while i < w.len() {
                if i + 1 < w.len() && w[i] == a && w[i + 1] == b {
                    out.push(id);
                    i += 2;
                } else {
                    out.push(w[i]);
                    i += 1;
                }
            }
            *w = out;
        }
    }
    toks.extend(specials());
    let eos = toks.len() as u32 - 1;
    Vocab { words: toks, eos, canonical, eos_extra: vec![] }
}

/// Build a vocabulary from a job descriptor:
/// `{"kind":"byte"}`, `{"kind":"list","words":[[..]..],"eos":n}`,
/// `{"kind":"bpe","corpus":path,"merges":n,"limit":bytes}`; optional `"canonical":0|1`.
pub fn from_desc(d: &Value) -> Vocab {
    let mut v = from_desc_inner(d);
    if let Some(a) = d["eos_extra"].as_array() {
        v.eos_extra = a.iter().filter_map(|x| x.as_u64()).map(|x| x as u32).filter(|&t| (t as usize) < v.words.len() && t != v.eos).collect();
    }
    v.add_auto_eos(d);
    v
}

fn from_desc_inner(d: &Value) -> Vocab {
    let canonical = d["canonical"].as_u64().unwrap_or(0) != 0;
    match d["kind"].as_str().unwrap_or("byte") {
        "byte" => byte_vocab(canonical),
        "list" => {
            let words: Vec<Vec<u8>> = d["words"]
                .as_array()
                .expect("words")
                .iter()
                .map(crate::json_bytes)
                .collect();
            let eos = d["eos"].as_u64().expect("eos") as u32;
            Vocab { words, eos, canonical, eos_extra: vec![] }
        }
        "bpe" => {
            let path = d["corpus"].as_str().expect("corpus");
            let mut data = std::fs::read(path).unwrap_or_else(|e| panic!("{path}: {e}"));
            let limit = d["limit"].as_u64().unwrap_or(200_000) as usize;
            data.truncate(limit);
            if let Some(extra) = d["extra_text"].as_str() {
                data.extend_from_slice(extra.as_bytes());
            }
            bpe_vocab(&data, d["merges"].as_u64().unwrap_or(500) as usize, canonical)
        }
        k => panic!("unknown vocab kind {k}"),
    }
}
