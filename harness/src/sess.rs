//! A session = one episode: factories (one per configuration), named engines (`Matcher`s) and
//! `exec`, which performs exactly one public API call and logs exactly one event at its return.
use crate::vocab::Vocab;
use crate::{bytes_json, err_class, u32s_json, Trace};
use anyhow::Result;
use llguidance::api::{ParserLimits, TopLevelGrammar};
use llguidance::earley::SlicedBiasComputer;
use llguidance::toktrie::{InferenceCapabilities, SimpleVob, TokEnv};
use llguidance::{Matcher, ParserFactory};
use serde_json::{json, Value};
use std::collections::BTreeMap;

pub fn grammar_from_desc(g: &Value) -> Result<TopLevelGrammar> {
    match g["kind"].as_str().unwrap_or("lark") {
        "lark" => Ok(TopLevelGrammar::from_lark(
            g["text"].as_str().unwrap_or("").to_string(),
        )),
        "regex" => Ok(TopLevelGrammar::from_regex(g["text"].as_str().unwrap_or(""))),
        "json" => {
            let schema = if let Some(t) = g["text"].as_str() {
                serde_json::from_str(t)?
            } else {
                g["schema"].clone()
            };
            Ok(TopLevelGrammar::from_json_schema(schema))
        }
        k => anyhow::bail!("unknown grammar kind {k}"),
    }
}

pub struct Cfg {
    pub vocab: Vocab,
    pub env: TokEnv,
    pub factory: ParserFactory,
    pub vid: u32,
}

pub fn slices_from_desc(d: &Value) -> Vec<String> {
    match d {
        Value::String(s) if s == "default" => SlicedBiasComputer::general_slices(),
        Value::String(s) if s == "json" => SlicedBiasComputer::json_slices(),
        Value::Array(a) => a.iter().map(|x| x.as_str().unwrap().to_string()).collect(),
        _ => vec![],
    }
}

pub fn limits_from_desc(d: &Value) -> ParserLimits {
    let mut l = ParserLimits::default();
    if let Some(o) = d.as_object() {
        for (k, v) in o {
            let n = v.as_u64().unwrap_or(0);
            match k.as_str() {
                "max_items_in_row" => l.max_items_in_row = n as usize,
                "initial_lexer_fuel" => l.initial_lexer_fuel = n,
                "step_lexer_fuel" => l.step_lexer_fuel = n,
                "step_max_items" => l.step_max_items = n as usize,
                "max_lexer_states" => l.max_lexer_states = n as usize,
                "max_grammar_size" => l.max_grammar_size = n as usize,
                _ => {}
            }
        }
    }
    l
}

impl Cfg {
    pub fn new(vocab: Vocab, vid: u32, d: &Value) -> Result<Cfg> {
        let env = vocab.env();
        let caps = InferenceCapabilities {
            ff_tokens: d["ff_tokens"].as_u64().unwrap_or(0) != 0,
            ..Default::default()
        };
        let mut factory = ParserFactory::new(&env, caps, &slices_from_desc(&d["slices"]))?;
        factory.quiet();
        *factory.limits_mut() = limits_from_desc(&d["limits"]);
        Ok(Cfg { vocab, env, factory, vid })
    }
    pub fn matcher(&self, g: &Value) -> Matcher {
        let r = grammar_from_desc(g).and_then(|tg| self.factory.create_parser(tg));
        Matcher::new(r)
    }
}

/// Set bits of a mask decoded from the raw words (so bits at or above the vocabulary size show).
pub fn mask_ids(m: &SimpleVob) -> Vec<u32> {
    let mut r = vec![];
    for (wi, &w) in m.as_slice().iter().enumerate() {
        let mut w = w;
        while w != 0 {
            let b = w.trailing_zeros();
            r.push(wi as u32 * 32 + b);
            w &= w - 1;
        }
    }
    r
}

pub struct Session<'a> {
    pub cfgs: Vec<Cfg>,
    pub gram: Value,
    pub eng: BTreeMap<u32, (Matcher, usize)>,
    pub tr: &'a mut Trace,
    pub nev: usize,
}

fn okf(ok: bool) -> u32 {
    ok as u32
}

impl<'a> Session<'a> {
    pub fn new(cfgs: Vec<Cfg>, gram: Value, tr: &'a mut Trace) -> Session<'a> {
        Session { cfgs, gram, eng: BTreeMap::new(), tr, nev: 0 }
    }

    pub fn m(&mut self, e: u32) -> &mut Matcher {
        &mut self.eng.get_mut(&e).expect("engine").0
    }

    pub fn cfg_of(&self, e: u32) -> &Cfg {
        &self.cfgs[self.eng[&e].1]
    }

    fn post(&mut self, e: u32, mut v: Value) -> Value {
        let m = self.m(e);
        v["st"] = json!(m.stop_reason().to_string());
        v["er"] = json!(okf(m.is_error()));
        v["e"] = json!(e);
        self.tr.ev(v.clone());
        self.nev += 1;
        v
    }

    fn res<T>(v: &mut Value, r: &Result<T>) {
        match r {
            Ok(_) => v["ok"] = json!(1),
            Err(e) => {
                v["ok"] = json!(0);
                v["cls"] = json!(err_class(&e.to_string()));
                if std::env::var("VH_ERR").is_ok() {
                    // diagnostics only (ASCII head of the message)
                    let m: String = e.to_string().chars().take_while(|c| *c != '\n').filter(|c| c.is_ascii()).take(200).collect();
                    eprintln!("VH_ERR {}", m);
                }
            }
        }
    }

    /// Build a new engine `e` from configuration `c` (event `New`).
    pub fn new_engine(&mut self, e: u32, c: usize) -> bool {
        let m = self.cfgs[c].matcher(&self.gram);
        let ok = !m.is_error();
        let cls = m.get_error().map(|s| err_class(&s)).unwrap_or_default();
        self.eng.insert(e, (m, c));
        let vid = self.cfgs[c].vid;
        self.post(e, json!({"ev":"New","c":c,"vid":vid,"ok":okf(ok),"cls":cls}));
        ok
    }

    pub fn mask(&mut self, e: u32) -> Option<Vec<u32>> {
        let r = self.m(e).compute_mask();
        let mut v = json!({"ev":"Mask"});
        Self::res(&mut v, &r);
        let out = r.ok().map(|m| {
            v["nb"] = json!(m.len());
            let ids = mask_ids(&m);
            v["set"] = u32s_json(&ids);
            ids
        });
        if out.is_some() {
            if let Ok(s) = self.m(e).last_step_stats() {
                v["sl"] = json!(s.slices_applied);
            }
        }
        self.post(e, v);
        out
    }

    pub fn mask_or_eos(&mut self, e: u32) -> Option<Vec<u32>> {
        let r = self.m(e).compute_mask_or_eos();
        let mut v = json!({"ev":"MaskOrEos"});
        Self::res(&mut v, &r);
        let out = r.ok().map(|m| {
            v["nb"] = json!(m.len());
            let ids = mask_ids(&m);
            v["set"] = u32s_json(&ids);
            ids
        });
        self.post(e, v);
        out
    }

    pub fn consume(&mut self, e: u32, t: u32) -> bool {
        let r = self.m(e).consume_token(t);
        let mut v = json!({"ev":"Consume","t":t});
        Self::res(&mut v, &r);
        self.post(e, v);
        r.is_ok()
    }

    pub fn consume_tokens(&mut self, e: u32, seq: &[u32]) -> bool {
        let r = self.m(e).consume_tokens(seq);
        let mut v = json!({"ev":"ConsumeTokens","seq":u32s_json(seq)});
        Self::res(&mut v, &r);
        self.post(e, v);
        r.is_ok()
    }

    pub fn try_consume(&mut self, e: u32, seq: &[u32]) -> Option<usize> {
        let r = self.m(e).try_consume_tokens(seq);
        let mut v = json!({"ev":"TryConsume","seq":u32s_json(seq)});
        Self::res(&mut v, &r);
        if let Ok(n) = &r {
            v["n"] = json!(n);
        }
        self.post(e, v);
        r.ok()
    }

    pub fn validate(&mut self, e: u32, seq: &[u32]) -> Option<usize> {
        let r = self.m(e).validate_tokens(seq);
        let mut v = json!({"ev":"Validate","seq":u32s_json(seq)});
        Self::res(&mut v, &r);
        if let Ok(n) = &r {
            v["n"] = json!(n);
        }
        self.post(e, v);
        r.ok()
    }

    /// `validate_tokens([t])` for every token id of the vocabulary, logged as one event:
    /// `set` = ids for which the result was 1.
    pub fn validate_all(&mut self, e: u32) -> Option<Vec<u32>> {
        let n = self.cfg_of(e).vocab.n() as u32;
        let mut set = vec![];
        let mut ok = true;
        let mut cls = String::new();
        for t in 0..n {
            match self.m(e).validate_tokens(&[t]) {
                Ok(1) => set.push(t),
                Ok(_) => {}
                Err(err) => {
                    ok = false;
                    cls = err_class(&err.to_string());
                    break;
                }
            }
        }
        let v = json!({"ev":"ValidateAll","ok":okf(ok),"cls":cls,"set":u32s_json(&set)});
        self.post(e, v);
        if ok {
            Some(set)
        } else {
            None
        }
    }

    pub fn acc(&mut self, e: u32) -> Option<bool> {
        let r = self.m(e).is_accepting();
        let mut v = json!({"ev":"Acc"});
        Self::res(&mut v, &r);
        if let Ok(a) = &r {
            v["v"] = json!(okf(*a));
        }
        self.post(e, v);
        r.ok()
    }

    pub fn ff_bytes(&mut self, e: u32) -> Vec<u8> {
        let b = self.m(e).compute_ff_bytes();
        self.post(e, json!({"ev":"FFBytes","b":bytes_json(&b)}));
        b
    }

    pub fn ff_tokens(&mut self, e: u32) -> Vec<u32> {
        let t = self.m(e).compute_ff_tokens();
        self.post(e, json!({"ev":"FFTokens","toks":u32s_json(&t)}));
        t
    }

    pub fn consume_ff(&mut self, e: u32) -> Vec<u32> {
        let t = self.m(e).consume_ff_tokens();
        self.post(e, json!({"ev":"ConsumeFF","toks":u32s_json(&t)}));
        t
    }

    pub fn rollback(&mut self, e: u32, k: usize) -> bool {
        let r = self.m(e).rollback(k);
        let mut v = json!({"ev":"Rollback","k":k});
        Self::res(&mut v, &r);
        self.post(e, v);
        r.is_ok()
    }

    pub fn reset(&mut self, e: u32) -> bool {
        let r = self.m(e).reset();
        let mut v = json!({"ev":"Reset"});
        Self::res(&mut v, &r);
        self.post(e, v);
        r.is_ok()
    }

    pub fn invalidate(&mut self, e: u32) {
        self.m(e).invalidate_bias_cache();
        self.post(e, json!({"ev":"Invalidate"}));
    }

    pub fn status(&mut self, e: u32) {
        let s = self.m(e).is_stopped();
        self.post(e, json!({"ev":"Status","stopped":okf(s)}));
    }

    pub fn clone_engine(&mut self, e: u32, to: u32, deep: bool) {
        let (m, c) = {
            let (m, c) = &self.eng[&e];
            (if deep { m.deep_clone() } else { m.clone() }, *c)
        };
        self.eng.insert(to, (m, c));
        self.post(to, json!({"ev":"Clone","from":e,"deep":okf(deep)}));
    }

    pub fn drop_engine(&mut self, e: u32) {
        self.eng.remove(&e);
    }

    /// A side engine that is *not* logged: used by drivers to pick tokens without touching the
    /// caches of the engine under test (DESIGN.md §5 rule 9).
    pub fn side_clone(&self, e: u32) -> Matcher {
        self.eng[&e].0.deep_clone()
    }
}

/// "Language-derived" vocabulary: all single bytes, plus substrings (2..=maxlen bytes) of sample
/// strings of the grammar's own language (random byte-level walks), plus cross-overs of those
/// (near-miss tokens that agree with a real substring except for the first or last byte),
/// duplicates, and the usual specials. Such tokens span several lexemes of *this* grammar.
pub fn lang_vocab(gram: &Value, d: &Value, seed: u64) -> crate::vocab::Vocab {
    use crate::rng::Rng;
    let mut rng = Rng::new(seed ^ 0x5151);
    let canonical = d["canonical"].as_u64().unwrap_or(0) != 0;
    let n_multi = d["n_multi"].as_u64().unwrap_or(80) as usize;
    let maxlen = d["maxlen"].as_u64().unwrap_or(5) as usize;
    let base = crate::vocab::byte_vocab(false);
    let mut samples: Vec<Vec<u8>> = vec![];
    if let Ok(cfg) = Cfg::new(base.clone(), 0, &serde_json::json!({"slices": []})) {
        for _ in 0..12 {
            let mut m = cfg.matcher(gram);
            let mut out = vec![];
            for _ in 0..40 {
                let mask = match m.compute_mask() {
                    Ok(x) => x,
                    Err(_) => break,
                };
                let ids: Vec<u32> = mask_ids(&mask).into_iter().filter(|&t| t < 256).collect();
                if ids.is_empty() {
                    break;
                }
                // prefer printable ASCII so that free-text lexemes do not drown the structure
                let pr: Vec<u32> = ids.iter().cloned().filter(|&t| (32..127).contains(&t)).collect();
                let t = if !pr.is_empty() && rng.chance(90, 100) { *rng.pick(&pr) } else { *rng.pick(&ids) };
                if m.consume_token(t).is_err() {
                    break;
                }
                out.push(t as u8);
                if m.is_stopped() {
                    break;
                }
            }
            if out.len() >= 2 {
                samples.push(out);
            }
        }
    }
    let mut words: Vec<Vec<u8>> = (0..=255u8).map(|x| vec![x]).collect();
    let mut subs: Vec<Vec<u8>> = vec![];
    if !samples.is_empty() {
        for _ in 0..n_multi {
            let s = rng.pick(&samples);
            let len = 2 + rng.below(maxlen - 1);
            if s.len() < len {
                continue;
            }
            let i = rng.below(s.len() - len + 1);
            subs.push(s[i..i + len].to_vec());
        }
    }
    let mut extra: Vec<Vec<u8>> = vec![];
    for _ in 0..n_multi / 2 {
        if subs.len() < 2 {
            break;
        }
        let u = rng.pick(&subs).clone();
        let v = rng.pick(&subs).clone();
        let mut w = u.clone();
        if rng.chance(50, 100) {
            let k = w.len() - 1;
            w[k] = v[v.len() - 1];
        } else {
            w[0] = v[0];
        }
        extra.push(w);
    }
    subs.extend(extra);
    subs.retain(|w| !w.contains(&0xFF));
    subs.sort();
    let mut dedup: Vec<Vec<u8>> = vec![];
    for w in subs {
        if dedup.last() != Some(&w) || rng.chance(10, 100) {
            dedup.push(w);
        }
    }
    words.extend(dedup);
    words.push(b"\xFF<|tool|>".to_vec());
    words.push(b"\xFF<|user|>".to_vec());
    words.push(b"\xFF<a>".to_vec());
    words.push(b"\xFF<[3]>".to_vec());
    words.push(b"\xFF<|end|>".to_vec());
    let eos = words.len() as u32 - 1;
    let mut v = crate::vocab::Vocab { words, eos, canonical, eos_extra: vec![] };
    v.add_auto_eos(d);
    v
}
