//! Conformance harness for llguidance: drivers record ndjson traces of public-API calls,
//! replayers execute TLC-generated behaviours. TLC (not this crate) decides acceptance.
pub mod rng;
pub mod sess;
pub mod vocab;

use serde_json::Value;
use std::io::Write;

/// ndjson trace writer.
pub struct Trace {
    w: std::io::BufWriter<Box<dyn Write + Send>>,
    pub n: usize,
    last_limit: bool,
}

impl Trace {
    pub fn create(path: &str) -> Trace {
        let f: Box<dyn Write + Send> = if path == "-" {
            Box::new(std::io::stdout())
        } else {
            Box::new(std::fs::File::create(path).expect("create trace"))
        };
        Trace {
            w: std::io::BufWriter::with_capacity(1 << 20, f),
            n: 0,
            last_limit: false,
        }
    }
    /// was the last event a `Limit` event of one of the two compared engines (split driver)?
    pub fn last_was_limit(&self) -> bool {
        self.last_limit
    }
    pub fn ev(&mut self, v: Value) {
        self.last_limit = v["ev"] == "Limit" && v["e"] != 2;
        serde_json::to_writer(&mut self.w, &v).unwrap();
        self.w.write_all(b"\n").unwrap();
        self.n += 1;
    }
    pub fn flush(&mut self) {
        self.w.flush().unwrap();
    }
}

pub fn bytes_json(b: &[u8]) -> Value {
    Value::Array(b.iter().map(|&x| Value::from(x as u32)).collect())
}

pub fn u32s_json(b: &[u32]) -> Value {
    Value::Array(b.iter().map(|&x| Value::from(x)).collect())
}

pub fn json_bytes(v: &Value) -> Vec<u8> {
    v.as_array()
        .map(|a| a.iter().map(|x| x.as_u64().unwrap() as u8).collect())
        .unwrap_or_default()
}

pub fn json_u32s(v: &Value) -> Vec<u32> {
    v.as_array()
        .map(|a| a.iter().map(|x| x.as_u64().unwrap() as u32).collect())
        .unwrap_or_default()
}

pub fn read_job(path: &str) -> Value {
    let s = std::fs::read_to_string(path).unwrap_or_else(|e| panic!("read {path}: {e}"));
    serde_json::from_str(&s).unwrap_or_else(|e| panic!("parse {path}: {e}"))
}

/// ASCII-only tag from an error message (TLC's Json module mangles non-ASCII).
pub fn err_class(msg: &str) -> String {
    // verbose errors append the parser state and the grammar text: classify the message proper
    let head = msg.split("\n<state>").next().unwrap_or(msg);
    let m = head.to_ascii_lowercase();
    let c = if m.starts_with("panic:") || m.contains("panic:") {
        "panic"
    } else if m.contains("noextensionbias") {
        "empty"
    } else if m.contains("out of range") {
        "range"
    } else if m.contains("rollback") {
        "rollback"
    } else if m.contains("parser stopped") {
        "stopped"
    } else if m.contains("doesn't satisfy the grammar") {
        "reject"
    } else if m.contains("too complex") || m.contains("too many") || m.contains("fuel") || m.contains("; max is") || m.contains("limit") {
        "limit"
    } else {
        "other"
    };
    c.to_string()
}
