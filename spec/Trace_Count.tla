---------------------------- MODULE Trace_Count ----------------------------
(* C09.  One event per grammar/schema that contains one or more repetitions or size bounds  *)
(* reps = << [m, n] .. >> (n = -1: unbounded); each probe string is built from k_i copies of *)
(* the i-th repeated unit; it must be accepted iff every k_i is within its bounds.           *)
EXTENDS Naturals, Integers, Sequences, TLC, Json, IOUtils

Rec == ndJsonDeserialize(IOEnv.TRACE)
VARIABLE l

InRange(rep, k) == rep.m <= k /\ (rep.n < 0 \/ k <= rep.n)
Expected(r, lit) == \A i \in DOMAIN r.reps : InRange(r.reps[i], lit.ks[i])

Count(r) ==
    /\ r.ev = "Count"
    /\ r.compiled = 1 \/ r.mayfail = 1
    /\ r.compiled = 1 => \A j \in DOMAIN r.lits : (r.lits[j].acc = 1) = Expected(r, r.lits[j])

Explain(r) ==
    r.ev # "Count" \/
    PrintT(<<"WHY", r.gtext, "compiled", r.compiled,
             {<<r.lits[j].ks, "expected", Expected(r, r.lits[j]), "got", r.lits[j].acc>> :
                j \in {x \in DOMAIN r.lits : (r.lits[x].acc = 1) # Expected(r, r.lits[x])}}>>)

Init == l = 1
Next == l <= Len(Rec) /\ l' = l + 1 /\ (IF Rec[l].ev = "Init" \/ Count(Rec[l]) THEN TRUE ELSE (IOEnv.EXPLAIN = "1" /\ Explain(Rec[l]) /\ FALSE))
TSpec == Init /\ [][Next]_l
Accepted ==
    LET d == TLCGet("stats").diameter IN
    IF d - 1 = Len(Rec) THEN TRUE ELSE PrintT(<<"REJECT", d>>) /\ FALSE
=============================================================================
