------------------------------ MODULE Regex ------------------------------
(***************************************************************************)
(* Byte-level regular expressions with intersection and complement, and    *)
(* their semantics by Brzozowski derivatives.  Alternation and              *)
(* intersection carry TLA+ SETS of operands, which gives associativity,    *)
(* commutativity and idempotence for free and hence a finite derivative    *)
(* closure.  Regexes are tagged tuples:                                    *)
(*   <<"empty">> <<"eps">> <<"set", S>> <<"cat", a, b>> <<"alt", {..}>>     *)
(*   <<"and", {..}>> <<"not", a>> <<"star", a>> <<"rep", a, m, n>>           *)
(* (n = -1 encoded as Inf for unbounded repetition).                       *)
(***************************************************************************)
EXTENDS Naturals, Integers, Sequences, FiniteSets, TLC

Byte == 0..255
Inf == 1000000

Empty == <<"empty">>
Eps == <<"eps">>
All == <<"not", Empty>>
Set(S) == IF S = {} THEN Empty ELSE <<"set", S>>
Lit1(b) == <<"set", {b}>>

Tag(r) == r[1]

RECURSIVE Cat(_, _)
Cat(a, b) ==
    IF a = Empty \/ b = Empty THEN Empty
    ELSE IF a = Eps THEN b
    ELSE IF b = Eps THEN a
    ELSE IF Tag(a) = "cat" THEN <<"cat", a[2], Cat(a[3], b)>>
    ELSE <<"cat", a, b>>

Alt(S0) ==
    LET S1 == UNION {IF Tag(r) = "alt" THEN r[2] ELSE {r} : r \in S0}
        S == S1 \ {Empty}
    IN  IF All \in S THEN All
        ELSE IF S = {} THEN Empty
        ELSE IF Cardinality(S) = 1 THEN CHOOSE r \in S : TRUE
        ELSE <<"alt", S>>

And(S0) ==
    LET S1 == UNION {IF Tag(r) = "and" THEN r[2] ELSE {r} : r \in S0}
        S == S1 \ {All}
    IN  IF Empty \in S THEN Empty
        ELSE IF S = {} THEN All
        ELSE IF Cardinality(S) = 1 THEN CHOOSE r \in S : TRUE
        ELSE <<"and", S>>

Not(r) == IF Tag(r) = "not" THEN r[2] ELSE <<"not", r>>

Star(r) ==
    IF r = Eps \/ r = Empty THEN Eps
    ELSE IF Tag(r) = "star" THEN r
    ELSE <<"star", r>>

(* r{m,n}; n = Inf for unbounded *)
Rep(r, m, n) ==
    IF n = 0 THEN Eps
    ELSE IF r = Eps THEN Eps
    ELSE IF r = Empty THEN (IF m = 0 THEN Eps ELSE Empty)
    ELSE IF m = 0 /\ n = Inf THEN Star(r)
    ELSE IF m = 1 /\ n = 1 THEN r
    ELSE <<"rep", r, m, n>>

RECURSIVE CatSeq(_)
CatSeq(rs) == IF rs = <<>> THEN Eps ELSE Cat(Head(rs), CatSeq(Tail(rs)))

LitBytes(bs) == CatSeq([i \in DOMAIN bs |-> Lit1(bs[i])])

---------------------------------------------------------------------------
RECURSIVE Nullable(_)
Nullable(r) ==
    CASE Tag(r) = "empty" -> FALSE
      [] Tag(r) = "eps" -> TRUE
      [] Tag(r) = "set" -> FALSE
      [] Tag(r) = "cat" -> Nullable(r[2]) /\ Nullable(r[3])
      [] Tag(r) = "alt" -> \E x \in r[2] : Nullable(x)
      [] Tag(r) = "and" -> \A x \in r[2] : Nullable(x)
      [] Tag(r) = "not" -> ~Nullable(r[2])
      [] Tag(r) = "star" -> TRUE
      [] Tag(r) = "rep" -> r[3] = 0 \/ Nullable(r[2])

Dec(n) == IF n = Inf THEN Inf ELSE n - 1
Pred0(m) == IF m = 0 THEN 0 ELSE m - 1

RECURSIVE D(_, _)
D(r, b) ==
    CASE Tag(r) = "empty" -> Empty
      [] Tag(r) = "eps" -> Empty
      [] Tag(r) = "set" -> IF b \in r[2] THEN Eps ELSE Empty
      [] Tag(r) = "cat" ->
            IF Nullable(r[2]) THEN Alt({Cat(D(r[2], b), r[3]), D(r[3], b)})
            ELSE Cat(D(r[2], b), r[3])
      [] Tag(r) = "alt" -> Alt({D(x, b) : x \in r[2]})
      [] Tag(r) = "and" -> And({D(x, b) : x \in r[2]})
      [] Tag(r) = "not" -> Not(D(r[2], b))
      [] Tag(r) = "star" -> Cat(D(r[2], b), r)
      [] Tag(r) = "rep" ->
            (* if the body is nullable, skipping iterations is the same as lowering m *)
            Cat(D(r[2], b), Rep(r[2], IF Nullable(r[2]) THEN 0 ELSE Pred0(r[3]), Dec(r[4])))

RECURSIVE DS(_, _)
DS(r, w) == IF w = <<>> THEN r ELSE DS(D(r, Head(w)), Tail(w))

Matches(r, w) == Nullable(DS(r, w))

---------------------------------------------------------------------------
(* One representative byte per class of bytes the regex cannot tell apart. *)
RECURSIVE Leaves(_)
Leaves(r) ==
    CASE Tag(r) \in {"empty", "eps"} -> {}
      [] Tag(r) = "set" -> {r[2]}
      [] Tag(r) = "cat" -> Leaves(r[2]) \cup Leaves(r[3])
      [] Tag(r) \in {"alt", "and"} -> UNION {Leaves(x) : x \in r[2]}
      [] Tag(r) \in {"not", "star", "rep"} -> Leaves(r[2])

Reps(r) ==
    LET L == Leaves(r)
        sig(b) == {S \in L : b \in S}
        sigs == {sig(b) : b \in Byte}
    IN  {CHOOSE b \in Byte : sig(b) = s : s \in sigs}

RECURSIVE ClosureFrom(_, _, _)
ClosureFrom(front, seen, reps) ==
    IF front = {} THEN seen
    ELSE LET next == {D(r, b) : r \in front, b \in reps} \ seen
         IN  ClosureFrom(next, seen \cup next, reps)

Closure(r) == ClosureFrom({r}, {r}, Reps(r))

RECURSIVE LiveFix(_, _, _)
LiveFix(L, C, reps) ==
    LET L2 == L \cup {r \in C \ L : \E b \in reps : D(r, b) \in L}
    IN  IF L2 = L THEN L ELSE LiveFix(L2, C, reps)

(* states of the closure from which some accepting state is reachable *)
LiveOf(r) ==
    LET C == Closure(r)
        reps == Reps(r)
    IN  LiveFix({x \in C : Nullable(x)}, C, reps)

(* w is a prefix of some word of L(r) *)
Viable(r, w) == DS(r, w) \in LiveOf(r)
NonEmptyLang(r) == r \in LiveOf(r)
=============================================================================
