---------------------------- MODULE MC_EngineImpl ----------------------------
(***************************************************************************)
(* U1 + U2 for EngineImpl.tla.  One small grammar over named (possibly      *)
(* overlapping) lexemes and one vocabulary are read from the JSON file      *)
(* named by env CONFIG (the format of Trace_Lex's Init event).  TLC explores *)
(* every sequence of public operations up to Conf.depth                      *)
(*   mask, acc, ffb (forced bytes), inval, consume t, rollback k, reset      *)
(* on the implementation-shaped state and checks                             *)
(*   Refines   : every result equals the reference engine's (a function of   *)
(*               the committed tokens only)                                  *)
(*   Structure : stack / rows / vend invariants, rows form a consistent      *)
(*               chart, the state is the reference state after the parser    *)
(*               bytes                                                       *)
(*   CacheOK   : a cache entry whose key matches holds the fresh mask        *)
(* Conf.sw switches on a design error; those configurations must FAIL        *)
(* (lib/implmc.py runs them as negative controls of the model).              *)
(* With Conf.record = 1 every behaviour of full depth is printed as a script *)
(* (U2); the `rel` driver replays it on the real engine and Trace_Lex        *)
(* validates the recorded results.                                           *)
(***************************************************************************)
EXTENDS EngineImpl, Json, IOUtils

Conf == ndJsonDeserialize(IOEnv.CONFIG)[1]

P0 == Desugar(Conf.lex.rules)
E == [G |-> MkG(P0), start |-> <<Conf.lex.start>>,
      L |-> [i \in 0..(Len(Conf.lex.lexemes) - 1) |->
                MkLexemeZ(Conf.lex.lexemes[i + 1],
                          "lazy" \in DOMAIN Conf.lex /\ i \in {Conf.lex.lazy[j] : j \in DOMAIN Conf.lex.lazy})],
      skip |-> IF "skip" \in DOMAIN Conf.lex THEN Conf.lex.skip ELSE NoSkip,
      tok |-> Conf.tok, eos |-> Conf.eos, order |-> Conf.order, alpha |-> {Conf.alpha[i] : i \in DOMAIN Conf.alpha},
      canon |-> Conf.canon = 1, maxlen |-> Conf.maxlen,
      sw |-> [clearOnRollback |-> Conf.sw.clearOnRollback = 1, keyRow |-> Conf.sw.keyRow = 1,
              keyPending |-> Conf.sw.keyPending = 1, resetLastForce |-> Conf.sw.resetLastForce = 1,
              vendMax |-> Conf.sw.vendMax = 1, clearFFOnRollback |-> Conf.sw.clearFFOnRollback = 1]]
Fuel == Conf.fuel

ASSUME Reduced(P0, E.start)
ASSUME \A i \in DOMAIN E.L : E.L[i].rx \in E.L[i].live /\ ~R!Nullable(E.L[i].rx)

VARIABLES s, obs, ops, depth
vars == <<s, obs, ops>>

Init == s = Init0(E) /\ obs = <<"init">> /\ ops = <<>>

Do(r, name, arg) ==
    /\ s' = r.s
    /\ obs' = <<name, arg, r.res, s.toks, s.mode, s.stop>>
    /\ ops' = IF Conf.record = 1 THEN Append(ops, <<name, arg>>) ELSE <<>>

FirstK(S, k) == {t \in S : Cardinality({u \in S : u < t}) < k}
Toks == {E.order[i] : i \in DOMAIN E.order}
RMask == IF s.mode = "ok" THEN RefMask(E, s.toks) ELSE {}

Next ==
    /\ depth < Conf.depth
    /\ depth' = depth + 1
    /\ \/ Do(Mask(E, s, Fuel), "mask", 0)
       \/ Do(FFTokens(E, s, Fuel), "fft", 0)
       \/ Do(IsAccepting(E, s), "acc", 0)
       \/ Do(Force(E, s, Fuel), "ffb", 0)
       \/ (s.cache # <<>> /\ Do(Invalidate(E, s), "inval", 0))
       \/ \E t \in FirstK(RMask \ {E.eos}, Conf.cap) : Do(Commit(E, s, t), "consume", t)
       \/ (E.eos \in RMask /\ Do(Commit(E, s, E.eos), "consume", E.eos))
       \/ \E t \in FirstK(Toks \ RMask, 1) : Do(Commit(E, s, t), "consume", t)
       \/ \E k \in {1, 2, Len(s.toks) + 1} : Do(Rollback(E, s, k), "rollback", k)
       \/ (Len(s.toks) > 2 /\ Do(Rollback(E, s, Len(s.toks)), "reset", 0))

Spec == Init /\ depth = 0 /\ [][Next]_<<vars, depth>>

(* ---- refinement: every result is the reference engine's ----------------- *)
(* obs = <<op, arg, res, toks before, mode before, stop before>> *)
Refines ==
    obs[1] # "init" /\ obs[5] = "ok" =>
    LET op == obs[1]
        arg == obs[2]
        res == obs[3]
        ts == obs[4]
        stopped == obs[6] # "none"
    IN
    CASE op = "mask" -> IF stopped THEN res = <<"err">>
                        ELSE IF RefMask(E, ts) = {} THEN res = <<"err">>
                        ELSE IF E.canon /\ res # <<"mask", RefMask(E, ts)>>
                        THEN (* narrowed to the first fast-forward token: allowed, and spelling forced text (C13) *)
                             /\ res[1] = "mask" /\ Cardinality(res[2]) = 1
                             /\ \A t \in res[2] : t \in RefMask(E, ts) /\ IsPrefixOf(E.tok[t + 1], RefForced(E, ts, Fuel))
                        ELSE res = <<"mask", RefMask(E, ts)>>
      [] op = "fft" -> IF stopped THEN res = <<"fft", <<>> >>
                       ELSE /\ res[1] = "fft"
                            /\ (~E.canon => res[2] = <<>>)
                            /\ IsPrefixOf(BytesOfToks(E, res[2]), RefForced(E, ts, Fuel))
                            /\ \A i \in DOMAIN res[2] : res[2][i] \in RefMask(E, ts \o SubSeq(res[2], 1, i - 1))
      [] op = "acc" -> res = <<"acc", IF stopped THEN TRUE ELSE RefAcc(E, ts)>>
      [] op = "ffb" -> res = <<"ff", IF stopped THEN <<>> ELSE RefForced(E, ts, Fuel)>>
      [] op = "consume" -> (res = <<"ok">>) = (~stopped /\ arg \in RefMask(E, ts))
      [] op \in {"rollback", "reset"} -> (res = <<"ok">>) = (op = "reset" \/ arg <= Len(ts))
      [] OTHER -> TRUE

(* the abstract state after the step is the one the reference engine prescribes *)
StateRefines ==
    s.mode = "ok" =>
        /\ (s.stop # "none") = RefStopped(E, s.toks)
        /\ s.stop = "eos" <=> (s.toks # <<>> /\ LastOf(s.toks) = E.eos)

Structure == s.mode = "ok" => StackOK(s) /\ RowsOK(E, s) /\ StateOK(E, s)

CacheOK ==
    s.mode = "ok" /\ s.stop = "none" /\ s.cache # <<>> /\ Pending(s) = <<>> /\ s.cache[1].key = Key(E, s) =>
        s.cache[1].mask \cup (IF RefAcc(E, s.toks) THEN {E.eos} ELSE {}) = RefMask(E, s.toks)

AccCacheOK == s.mode = "ok" /\ s.accCache # "none" => (s.accCache = "T") = (IF s.stop # "none" THEN TRUE ELSE RefAcc(E, s.toks))

Emit == (Conf.record = 1 /\ depth = Conf.depth) => PrintT(<<"REPLAY", ToJson(ops)>>)
=============================================================================
