SPECIFICATION Spec
CONSTANTS
  Alphabet = {1, 2}
  MaxLen = 3
  MaxTok = 4
  MaxStart = 1
  Emit = FALSE
INVARIANTS LayoutInv NoUnderflow Capacity StackIsPath StartNode StartNone Result EmitReplay
CHECK_DEADLOCK FALSE
