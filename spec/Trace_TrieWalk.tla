---------------------------- MODULE Trace_TrieWalk ----------------------------
(***************************************************************************)
(* Trace validation for TrieWalk (C16): the recogniser calls made by the   *)
(* real TokTrie::add_bias / has_valid_extensions (harness bin `triewalk`)  *)
(* must be exactly the steps of the specification's walk over the layout   *)
(* the specification computes itself from the vocabulary, and the result   *)
(* must be the naive one.                                                  *)
(*   Init{words,start,mode}  Pop{n}  Push{b,ok}  Done{toks,found,size,depth,underflow,panic} *)
(***************************************************************************)
EXTENDS TrieWalk, Json, IOUtils

Rec == ndJsonDeserialize(IOEnv.TRACE)

VARIABLES l, vocab, nodes, start, mode, off, s, yes, pre
vars == <<l, vocab, nodes, start, mode, off, s, yes, pre>>

Idle == [p |-> 0, endp |-> 0, nextPop |-> 0, stack |-> <<>>, toks |-> {}, underflow |-> FALSE, found |-> FALSE, phase |-> "idle"]
SeqToSet(q) == {q[i] : i \in DOMAIN q}

TInit == l = 1 /\ vocab = <<>> /\ nodes = <<>> /\ start = <<>> /\ mode = "" /\ off = 0 /\ s = Idle /\ yes = {} /\ pre = Idle

EvInit(r) ==
    /\ r.ev = "Init"
    /\ vocab' = r.words
    /\ start' = r.start
    /\ mode' = r.mode
    /\ LET ns == Layout(r.words)
           o == Descend(ns, 1, r.start)
       IN /\ nodes' = ns
          /\ off' = o
          /\ s' = IF o = 0 THEN Idle ELSE WalkStart(ns, o)
          /\ pre' = IF r.mode = "bias" THEN StartPass(r.words, ns, r.start) ELSE Idle
          /\ LayoutOK(r.words, ns)
    /\ yes' = {}

EvPop(r) ==
    /\ r.ev = "Pop"
    /\ r.n = s.nextPop
    /\ \/ s.phase = "pop" /\ s' = StepPop(s)
       \/ s.phase = "final" /\ mode = "bias" /\ start = <<>> /\ s' = StepFinal(vocab, s, TRUE)
    /\ ~s'.underflow
    /\ UNCHANGED <<vocab, nodes, start, mode, off, yes, pre>>

EvPush(r) ==
    /\ r.ev = "Push"
    /\ s.phase = "push"
    /\ r.b = PushByte(nodes, s)
    /\ s' = IF mode = "bias" THEN StepPush(vocab, nodes, s, r.ok = 1) ELSE StepPushHve(vocab, nodes, s, r.ok = 1)
    /\ yes' = IF r.ok = 1 THEN yes \cup {Append(s.stack, r.b)} ELSE yes
    /\ UNCHANGED <<vocab, nodes, start, mode, off, pre>>

EvDone(r) ==
    /\ r.ev = "Done"
    /\ r.panic = 0 /\ r.underflow = 0
    /\ IF mode = "bias"
       THEN LET fin == IF s.phase = "final" /\ start # <<>> THEN StepFinal(vocab, s, FALSE) ELSE s
                got == SeqToSet(r.toks)
            IN /\ fin.phase \in {"done", "idle"}
               /\ got = fin.toks \cup pre.toks
               /\ got = NaiveExt(vocab, start, yes) \cup NaivePre(vocab, start)
               /\ got \subseteq 0..(Len(vocab) - 1)
               /\ r.size = Len(vocab)
               /\ ~pre.underflow
               /\ (off = 0 => r.depth = -1)
               /\ (off # 0 /\ start = <<>> => r.depth = 0)
       ELSE /\ s.phase \in {"done", "idle", "final"}        \* "final": the start node has no descendants, nothing was asked
            /\ (r.found = 1) = s.found
            /\ (r.found = 1) = (NaiveExt(vocab, start, yes) # {})
    /\ s' = Idle
    /\ UNCHANGED <<vocab, nodes, start, mode, off, yes, pre>>

TNext == l <= Len(Rec) /\ l' = l + 1 /\ LET r == Rec[l] IN EvInit(r) \/ EvPop(r) \/ EvPush(r) \/ EvDone(r)
TSpec == TInit /\ [][TNext]_vars
Accepted ==
    LET d == TLCGet("stats").diameter IN
    IF d - 1 = Len(Rec) THEN TRUE ELSE PrintT(<<"REJECT", d>>) /\ FALSE
=============================================================================
