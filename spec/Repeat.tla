------------------------------ MODULE Repeat ------------------------------
(***************************************************************************)
(* The repetition encoding of grammar_builder.rs (repeat / at_most /       *)
(* repeat_exact / at_least, factor K = 4, thresholds 3K and 2K),            *)
(* transcribed at the level of COUNT SETS: an element is the set of        *)
(* numbers of copies of the base symbol it can stand for; join is the      *)
(* sumset, select the union.  Sets are truncated at Cap (at_least is       *)
(* unbounded).  MC_Repeat checks  Repeat({1}, m, n) = m..n  for all        *)
(* 0 <= m <= n <= N and Repeat({1}, m, none) = m..Cap.                     *)
(***************************************************************************)
EXTENDS Naturals, FiniteSets, Sequences

CONSTANTS K, Cap

Trunc(S) == {x \in S : x <= Cap}
Join2(A, B) == Trunc({a + b : a \in A, b \in B})
RECURSIVE JoinSeq(_)
JoinSeq(s) == IF s = <<>> THEN {0} ELSE Join2(Head(s), JoinSeq(Tail(s)))
Select(s) == UNION {s[i] : i \in DOMAIN s}
Empty == {0}
Optional(E) == {0} \cup E
SimpleRepeat(E, n) == JoinSeq([i \in 1..n |-> E])

(* zero_or_more: least fixpoint of Z = {0} u (E + Z), truncated *)
RECURSIVE ZFix(_, _)
ZFix(E, Z) == LET Z2 == Z \cup Join2(E, Z) IN IF Z2 = Z THEN Z ELSE ZFix(E, Z2)
ZeroOrMore(E) == ZFix(E, {0})

RECURSIVE RepeatExact(_, _)
RepeatExact(E, n) ==
    IF n > 2 * K
    THEN LET eltk == SimpleRepeat(E, K)
             inner == RepeatExact(eltk, n \div K)
             left == n % K
         IN  JoinSeq([i \in 1..left |-> E] \o <<inner>>)
    ELSE SimpleRepeat(E, n)

RECURSIVE AtMost(_, _)
AtMost(E, n) ==
    IF n = 0 THEN Empty
    ELSE IF n = 1 THEN Optional(E)
    ELSE IF n < 3 * K THEN Select([k \in 1..(n + 1) |-> SimpleRepeat(E, k - 1)])
    ELSE LET eltk == SimpleRepeat(E, K)
             maxnk0 == AtMost(eltk, (n \div K) - 1)
             maxk == AtMost(E, K - 1)
             maxnk == JoinSeq(<<maxnk0, maxk>>)
             eltnk == RepeatExact(eltk, n \div K)
             left == AtMost(E, n % K)
             eltn == JoinSeq(<<eltnk, left>>)
         IN  Select(<<eltn, maxnk>>)

AtLeast(E, n) ==
    LET z == ZeroOrMore(E) IN
    IF n = 0 THEN z ELSE JoinSeq(<<RepeatExact(E, n), z>>)

(* max = -1: no upper bound *)
Repeat(E, min, max) ==
    IF max < 0 THEN AtLeast(E, min)
    ELSE IF min = max THEN RepeatExact(E, min)
    ELSE IF min = 0 THEN AtMost(E, max)
    ELSE JoinSeq(<<RepeatExact(E, min), AtMost(E, max - min)>>)
=============================================================================
