----------------------------- MODULE Trace_Tok -----------------------------
(* C19: grammars mixing text and token references, validated in exact mode.  A token can be    *)
(* read in two ways: as its bytes (ordinary tokens only) or as itself at a token-identity      *)
(* terminal; the parse state after a history is therefore a SET of Earley charts (one per      *)
(* surviving reading).  Obligations: the mask is exactly the set of tokens with a surviving    *)
(* reading (so a special token is allowed only where the grammar names it, and the bare        *)
(* marker never); plain text is tokenised without special ids, marker forms give exactly the   *)
(* named id.                                                                                    *)
EXTENDS EngineRel, Cfg, Json, IOUtils

Rec == ndJsonDeserialize(IOEnv.TRACE)

VARIABLES l, ini, gx, ch

vars == <<eng, F, A, l, ini, gx, ch>>

TInit == EInit /\ l = 1 /\ ini = 0 /\ gx = <<>> /\ ch = <<>>

StartEpisode ==
    /\ Rec[l].ev = "Init"
    /\ eng' = <<>> /\ F' = <<>> /\ A' = <<>>
    /\ ini' = l
    /\ LET P == Desugar(Rec[l].cfg.rules)
           start == <<Rec[l].cfg.start>>
           G == MkG(P)
       IN  /\ gx' = [G |-> G, start |-> start, reduced |-> Reduced(P, start)]
           /\ ch' = (<<>> :> {Chart0(G, start)})

Voc(c) == Rec[ini].cfgs[c + 1]
TokBytes(c, t) == Voc(c).tok[t + 1]
IsSpecial(c, t) == LET b == TokBytes(c, t) IN b # <<>> /\ b[1] = 255

(* the surviving readings of token t from a set of charts *)
Readings(c, charts, t) ==
    LET asBytes == IF IsSpecial(c, t) \/ TokBytes(c, t) = <<>> THEN {}
                   ELSE {PushBytes(gx.G, x, TokBytes(c, t)) : x \in charts}
        asTok == {PushTok(gx.G, x, t) : x \in charts}
        liveTok == {x \in asTok : ~Dead(x)}
    IN  (* where a token can be read both ways the engine commits to the token-identity reading *)
        (* (tokenparser.rs apply_token: flush_and_check_numeric first); C19 does not say which   *)
        (* reading continues, so the specification follows the implementation here               *)
        IF liveTok # {} THEN liveTok ELSE {x \in asBytes : ~Dead(x)}

RECURSIVE StateOf(_, _, _)
StateOf(c, charts, h) == IF h = <<>> THEN charts ELSE StateOf(c, Readings(c, charts, Head(h)), Tail(h))

ChartsOf(c, h) == IF h \in DOMAIN ch THEN ch[h] ELSE
    LET ks == {k \in 0..Len(h) : SubSeq(h, 1, k) \in DOMAIN ch}
        k == CHOOSE x \in ks : \A y \in ks : y <= x
    IN  StateOf(c, ch[SubSeq(h, 1, k)], SubSeq(h, k + 1, Len(h)))

IsAcc(charts) == \E x \in charts : AcceptingChart(x, gx.start)
Allowed(c, charts, t) ==
    IF t = Voc(c).eos /\ IsAcc(charts) THEN TRUE ELSE Readings(c, charts, t) # {}
ExactMask(c, charts) ==
    LET nb == UNION {NextBytes(x) : x \in charts}
        nt == UNION {NextToks(x) : x \in charts}
        acc == IsAcc(charts)
    IN  {t \in 0..(Voc(c).n - 1) :
            \/ (t = Voc(c).eos /\ acc)
            \/ t \in nt
            \/ LET w == TokBytes(c, t) IN
               /\ w # <<>> /\ w[1] # 255 /\ w[1] \in nb
               /\ (Len(w) = 1 \/ \E x \in charts : ~Dead(PushBytes(gx.G, x, w)))}

NBy(charts) == UNION {NextBytes(x) : x \in charts}
NTk(charts) == UNION {NextToks(x) : x \in charts}

RECURSIVE ForcedBytes(_, _)
ForcedBytes(charts, b) ==
    IF b = <<>> THEN TRUE
    ELSE /\ ~IsAcc(charts) /\ NTk(charts) = {} /\ NBy(charts) = {Head(b)}
         /\ ForcedBytes({y \in {PushBytes(gx.G, x, <<Head(b)>>) : x \in charts} : ~Dead(y)}, Tail(b))

(* the mask may narrow to one token only when that token is the only way to go on *)
ForcedTok(c, charts, t) ==
    /\ ~IsAcc(charts)
    /\ \/ (NBy(charts) = {} /\ NTk(charts) = {t})
       \/ (NTk(charts) = {} /\ ~IsSpecial(c, t) /\ ForcedBytes(charts, TokBytes(c, t)))

Exact(r) ==
    IF r.ev \in {"Init", "New", "Clone", "Tokenize", "TokenizeMarker"} \/ ~Has(r.e) \/ ~Ok(r.e) THEN TRUE
    ELSE
    LET s == eng[r.e]
        c == s.cfgi
        st == ChartsOf(c, s.hist)
    IN
    CASE r.ev \in {"Mask", "MaskOrEos"} /\ r.ok = 1 /\ ~Stopped(r.e) ->
            LET M == SeqToSet(r.set) IN
            IF s.canon = 1 /\ Cardinality(M) = 1 /\ ExactMask(c, st) # M
            THEN M \subseteq ExactMask(c, st) /\ \A t \in M : ForcedTok(c, st, t)
            ELSE M = ExactMask(c, st)
      [] r.ev = "Acc" /\ r.ok = 1 /\ ~Stopped(r.e) -> (r.v = 1) = IsAcc(st)
      [] r.ev = "Consume" /\ ~Stopped(r.e) /\ r.t < s.n /\ ~(r.ok = 0 /\ r.cls = "limit") -> (r.ok = 1) = Allowed(c, st, r.t)
      [] OTHER -> TRUE

(* tokenisation of text vs marker forms *)
Tokenize(r) ==
    /\ r.ev = "Tokenize"
    /\ \A i \in DOMAIN r.toks : ~IsSpecial(r.c, r.toks[i])      \* text never becomes a special token
    /\ UNCHANGED <<eng, F, A, ch>>
TokenizeMarker(r) ==
    /\ r.ev = "TokenizeMarker"
    /\ r.toks = <<r.want>>                                       \* 0xFF <name> / 0xFF [id] is exactly that token
    /\ UNCHANGED <<eng, F, A, ch>>

Explain(r) ==
    IF ~Has(r.e) \/ ~Ok(r.e) THEN TRUE ELSE
    LET s == eng[r.e]
        st == ChartsOf(s.cfgi, s.hist)
    IN PrintT(<<"WHY", r.ev, "hist", s.hist, "expected-mask", ExactMask(s.cfgi, st), "acc", IsAcc(st), "readings", Cardinality(st)>>)

Remember(r) ==
    IF r.ev \in {"Init", "New", "Clone"} \/ ~Has(r.e) THEN UNCHANGED ch
    ELSE LET h == eng[r.e].hist IN
         IF h \in DOMAIN ch THEN UNCHANGED ch ELSE ch' = (h :> ChartsOf(eng[r.e].cfgi, h)) @@ ch

Step ==
    /\ Rec[l].ev # "Init"
    /\ ini > 0
    /\ LET r == Rec[l]
           voc == IF r.ev = "New" THEN Rec[ini].cfgs[r.c + 1] ELSE <<>>
       IN  \/ Tokenize(r)
           \/ TokenizeMarker(r)
           \/ /\ r.ev \notin {"Tokenize", "TokenizeMarker"}
              /\ IF ~gx.reduced THEN UNCHANGED <<eng, F, A, ch>>
                 ELSE ENext(r, voc) /\ (IF Exact(r) THEN TRUE ELSE (IOEnv.EXPLAIN = "1" /\ Explain(r) /\ FALSE)) /\ Remember(r)
    /\ UNCHANGED <<ini, gx>>

TNext == l <= Len(Rec) /\ l' = l + 1 /\ (StartEpisode \/ Step)
TSpec == TInit /\ [][TNext]_vars
Accepted ==
    LET d == TLCGet("stats").diameter IN
    IF d - 1 = Len(Rec) THEN TRUE ELSE PrintT(<<"REJECT", d>>) /\ FALSE
=============================================================================
