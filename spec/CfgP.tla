-------------------------------- MODULE CfgP --------------------------------
(***************************************************************************)
(* Parametric context-free grammars over bytes (docs/parametric.md): every *)
(* nonterminal instance is a pair (name, 64-bit value); a rule             *)
(*   [lhs |-> name, alts |-> << [cond |-> c, seq |-> << item .. >>] .. >>]    *)
(* applies to the instance (name, v) when cond holds at v; a reference     *)
(* [k |-> "ref", n |-> name, p |-> expr] stands for (name, expr(v)).          *)
(* Items are plain: "ref", "lit" (bytes), "cls" (byte set).                 *)
(* Semantics by Earley item sets pushed byte by byte; items carry the      *)
(* parameter value of their left-hand side.  Completions inside one set    *)
(* are iterated to a fixpoint, so empty productions need no special care.  *)
(* Expressions and conditions: GrammarLang.EvalExpr / EvalCond.            *)
(***************************************************************************)
EXTENDS GrammarLang

SeqSetP(s) == {s[i] : i \in DOMAIN s}

(* productions: <<lhs name, cond, symbols>> with symbols <<"t", byteset>> or <<"nt", name, expr>> *)
RECURSIVE FlatP(_)
FlatP(ss) == IF ss = <<>> THEN <<>> ELSE Head(ss) \o FlatP(Tail(ss))

ItemSyms(it) ==
    CASE it.k = "ref" -> << <<"nt", it.n, it.p>> >>
      [] it.k = "lit" -> [i \in DOMAIN it.b |-> <<"t", {it.b[i]}>>]
      [] it.k = "cls" -> << <<"t", SeqSetP(it.s)>> >>

(* the productions as a sequence; items refer to them by index (cheap to compare) *)
Prods(rules) ==
    FlatP([i \in DOMAIN rules |->
             [j \in DOMAIN rules[i].alts |->
                <<rules[i].lhs, rules[i].alts[j].cond,
                  FlatP([x \in DOMAIN rules[i].alts[j].seq |-> ItemSyms(rules[i].alts[j].seq[x])])>>]])

(* item = <<production index, dot, origin, value of the lhs instance>> *)
PNextOf(P, it) == IF it[2] < Len(P[it[1]][3]) THEN P[it[1]][3][it[2] + 1] ELSE <<"end">>
PAdv(it) == <<it[1], it[2] + 1, it[3], it[4]>>
PInstOf(P, it) == <<P[it[1]][1], it[4]>>
PTargetOf(P, it) == LET nx == PNextOf(P, it) IN <<nx[2], IF nx[3].f = "none" THEN 0 ELSE EvalExpr(nx[3], it[4])>>

StartItems(P, inst, k) == {<<q, 0, k, inst[2]>> : q \in {i \in DOMAIN P : P[i][1] = inst[1] /\ EvalCond(P[i][2], inst[2])}}

RECURSIVE PClose(_, _, _, _, _)
PClose(P, chart, k, S, new) ==
    IF new = {} THEN S
    ELSE
    LET waiting == {it \in new : PNextOf(P, it)[1] = "nt"}
        pred == UNION {StartItems(P, PTargetOf(P, it), k) : it \in waiting}
        done == {it \in new : it[2] = Len(P[it[1]][3])}
        (* a finished instance advances the items that were waiting for it at its origin *)
        comp1 == UNION {{PAdv(w) : w \in {x \in (IF d[3] = k THEN S ELSE chart[d[3] + 1]) :
                                        PNextOf(P, x)[1] = "nt" /\ PNextOf(P, x)[2] = P[d[1]][1] /\ PTargetOf(P, x) = PInstOf(P, d)}} : d \in done}
        (* an item that starts waiting now, for an instance already finished within this set *)
        comp2 == {PAdv(w) : w \in {x \in waiting : \E d \in S : d[3] = k /\ d[2] = Len(P[d[1]][3]) /\ P[d[1]][1] = PNextOf(P, x)[2] /\ PInstOf(P, d) = PTargetOf(P, x)}}
        new2 == (pred \cup comp1 \cup comp2) \ S
    IN  PClose(P, chart, k, S \cup new2, new2)

PChart0(P, start) ==
    LET S0 == StartItems(P, <<start, 0>>, 0) IN <<PClose(P, <<>>, 0, S0, S0)>>

PPushByte(P, chart, b) ==
    LET k == Len(chart)
        scanned == {PAdv(it) : it \in {x \in chart[k] : PNextOf(P, x)[1] = "t" /\ b \in PNextOf(P, x)[2]}}
    IN  Append(chart, IF scanned = {} THEN {} ELSE PClose(P, chart, k, scanned, scanned))

RECURSIVE PPushBytes(_, _, _)
PPushBytes(P, chart, w) ==
    IF w = <<>> \/ chart[Len(chart)] = {} THEN chart
    ELSE PPushBytes(P, PPushByte(P, chart, Head(w)), Tail(w))

PDead(chart) == chart[Len(chart)] = {}
PAccepting(P, chart, start) ==
    \E it \in chart[Len(chart)] : P[it[1]][1] = start /\ it[3] = 0 /\ it[4] = 0 /\ it[2] = Len(P[it[1]][3])
PNextBytes(P, chart) == UNION {PNextOf(P, it)[2] : it \in {x \in chart[Len(chart)] : PNextOf(P, x)[1] = "t"}}
=============================================================================
