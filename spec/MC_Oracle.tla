------------------------------ MODULE MC_Oracle ------------------------------
(***************************************************************************)
(* U1 for the exact oracles of C05: the two recognisers the trace          *)
(* specifications use (Earley item sets: Cfg.tla for EBNF grammars,        *)
(* CfgP.tla for parametric grammars) are compared, on every byte string up *)
(* to a bound over the grammar's alphabet, with an independent declarative *)
(* definition of the language: Cfg.Derives (least fixpoint of "A derives   *)
(* w[i..j]") resp. GrammarLang.LangN (least fixpoint of the bounded        *)
(* languages of the reachable instances <<name, value>>).                  *)
(* Also: a string that is a prefix of a word of the language never kills   *)
(* the chart, and NextBytes is exactly the set of bytes that keep it alive.*)
(* Grammars come from the generators of the C05 check (ndjson, GRAMMARS).  *)
(***************************************************************************)
EXTENDS CfgP, Json, IOUtils
C == INSTANCE Cfg

Gs == ndJsonDeserialize(IOEnv.GRAMMARS)
VARIABLE i

SeqSetO(q) == {q[x] : x \in DOMAIN q}
RECURSIVE StringsOver(_, _)
StringsOver(A, n) == IF n = 0 THEN {<<>>} ELSE LET S == StringsOver(A, n - 1) IN S \cup {Append(w, b) : w \in S, b \in A}

(* ---- EBNF grammars: Earley (Cfg) against Derives ---- *)
CfgOK(g) ==
    LET P == C!Desugar(g.cfg.rules)
        G == C!MkG(P)
        st == <<g.cfg.start>>
        ch0 == C!Chart0(G, st)
        A == SeqSetO(g.alpha)
    IN  \A w \in StringsOver(A, g.n) :
            LET ch == C!PushBytes(G, ch0, w)
                alive == ~C!Dead(ch)
            IN /\ (alive /\ C!AcceptingChart(ch, st)) = C!Derives(P, st, w)
               /\ alive => \A b \in A : (b \in C!NextBytes(ch)) = ~C!Dead(C!PushByte(G, ch, b))

(* ---- parametric grammars: Earley with values (CfgP) against the instance fixpoint (GrammarLang) ---- *)
RECURSIVE AltSeqs(_, _)
AltSeqs(seq, k) ==
    IF k > Len(seq) THEN {<<>>}
    ELSE LET rest == AltSeqs(seq, k + 1)
             it == seq[k]
             heads == CASE it.k = "lit" -> {[x \in DOMAIN it.b |-> [k |-> "t", t |-> it.b[x]]]}
                        [] it.k = "cls" -> {<<[k |-> "t", t |-> c]>> : c \in SeqSetO(it.s)}
                        [] it.k = "ref" -> {<<[k |-> "n", n |-> it.n, p |-> it.p]>>}
         IN  {h \o r : h \in heads, r \in rest}

GLRules(rules) ==
    LET keys == UNION {UNION {{<<a, b, s>> : s \in AltSeqs(rules[a].alts[b].seq, 1)} : b \in DOMAIN rules[a].alts} : a \in DOMAIN rules}
    IN  [key \in keys |-> [lhs |-> rules[key[1]].lhs, rhs |-> key[3], cond |-> rules[key[1]].alts[key[2]].cond, props |-> ""]]

IsPrefix(a, b) == Len(a) <= Len(b) /\ SubSeq(b, 1, Len(a)) = a

PcfgOK(g) ==
    LET P == Prods(g.pcfg.rules)
        ch0 == PChart0(P, g.pcfg.start)
        L == LangN([start |-> g.pcfg.start, rules |-> GLRules(g.pcfg.rules)], g.n)
        A == SeqSetO(g.alpha)
    IN  \A w \in StringsOver(A, g.n) :
            LET ch == PPushBytes(P, ch0, w)
                alive == ~PDead(ch)
            IN /\ (alive /\ PAccepting(P, ch, g.pcfg.start)) = (w \in L)
               /\ (\E v \in L : IsPrefix(w, v)) => alive
               /\ alive => \A b \in A : (b \in PNextBytes(P, ch)) = ~PDead(PPushByte(P, ch, b))

Init == i = 1
Next == i < Len(Gs) /\ i' = i + 1
Spec == Init /\ [][Next]_i
OracleOK == IF "pcfg" \in DOMAIN Gs[i] THEN PcfgOK(Gs[i]) ELSE CfgOK(Gs[i])
Whole == TLCGet("stats").diameter = Len(Gs)          \* postcondition: every grammar was looked at
=============================================================================
