------------------------------ MODULE LexParse ------------------------------
(***************************************************************************)
(* The lexer / parser interplay of llguidance for grammars whose terminals *)
(* MAY be confused with one another (parser/src/earley/lexer.rs advance,   *)
(* regexvec.rs lowest_match_inner, parser.rs advance_parser/flush_lexer).  *)
(* Not one of the listed properties: a description of the implementation's *)
(* behaviour, bound to it by Trace_Lex.tla.                                *)
(*                                                                         *)
(* Lexemes: L[i] = [rx, live, reps] (greedy, non-nullable regexes).        *)
(* Grammar: Cfg productions whose terminals are <<"tk", {lexeme ids}>>.     *)
(*                                                                         *)
(* State: [dead, chart, cur, started]; cur maps the lexemes that are still *)
(* possible in the current row to their derivatives.  One byte b:          *)
(*  - derive every possible lexeme by b and drop the ones that cannot      *)
(*    match any more;                                                      *)
(*  - if some survive: when ALL survivors match and none can be extended   *)
(*    the lexeme ends with b and every survivor is handed to the parser;   *)
(*    otherwise the lexeme goes on (no matter whether some lexeme matched  *)
(*    before: the lexer never gives back bytes);                           *)
(*  - if none survives: the bytes before b must match some possible lexeme *)
(*    (all that match are handed to the parser); b starts the next lexeme  *)
(*    among the lexemes the new item set can scan, and may end it at once. *)
(* The input may end inside a lexeme iff the bytes so far match one and    *)
(* the parser accepts after scanning all that match.                       *)
(***************************************************************************)
EXTENDS Cfg
R == INSTANCE RegexSurface

MkLexemeZ(ast, lazy) ==
    LET r == R!CompileTop(ast) IN [rx |-> r, live |-> R!LiveOf(r), reps |-> R!Reps(r), lazy |-> lazy]
MkLexeme(ast) == MkLexemeZ(ast, FALSE)

DeadSt == [dead |-> TRUE, chart |-> << {} >>, cur |-> <<>>, started |-> FALSE]

(* `%ignore`: lexeme id Skip (-1 = none).  It is possible in a row whenever "the grammar didn't finish" (some other    *)
(* lexeme may follow) except in the very first row (allow_initial_skip is off by default); when the lexemes that   *)
(* end together include it, the whole set counts as ignored (parser.rs scan(): `if set contains a skip lexeme`) and *)
(* the item set stays as it is.                                                                                   *)
NoSkip == -1
StartLexS(L, chart, skip) ==
    LET want == NextToks(chart)
        ids == IF skip # NoSkip /\ want # {} /\ Len(chart) > 1 THEN want \cup {skip} ELSE want
    IN  [dead |-> FALSE, chart |-> chart, cur |-> [i \in ids |-> L[i].rx], started |-> FALSE]
StartLex(L, chart) == StartLexS(L, chart, NoSkip)

Derive(L, cur, b) ==
    LET d == [i \in DOMAIN cur |-> R!D(cur[i], b)]
        live == {i \in DOMAIN cur : d[i] \in L[i].live}
    IN  [i \in live |-> d[i]]

Matching(cur) == {i \in DOMAIN cur : R!Nullable(cur[i])}
CannotExtend(L, i, d) == \A b \in L[i].reps : R!D(d, b) \notin L[i].live
AllEnded(L, cur) == DOMAIN cur # {} /\ \A i \in DOMAIN cur : R!Nullable(cur[i]) /\ CannotExtend(L, i, cur[i])
(* LAZY lexemes (`T[lazy]: /../`, regexvec.rs lowest_match_inner): as soon as some lazy lexeme matches, the lexeme  *)
(* ends with this byte and exactly the matching LAZY lexemes are handed to the parser (greedy ones that match too *)
(* are not); otherwise it ends only when every survivor matches and none can be extended.                        *)
LazyMatching(L, cur) == {i \in DOMAIN cur : L[i].lazy /\ R!Nullable(cur[i])}
EndsNow(L, cur) ==
    LET lz == LazyMatching(L, cur) IN IF lz # {} THEN lz ELSE IF AllEnded(L, cur) THEN DOMAIN cur ELSE {}

(* hand a set of lexemes to the parser: every item expecting one of them advances *)
Scan(G, chart, S) ==
    LET k == Len(chart)
        scanned == {Advance(it) : it \in {x \in chart[k] : NextSym(x)[1] = "tk" /\ NextSym(x)[2] \cap S # {}}}
    IN  Append(chart, IF scanned = {} THEN {} ELSE Close(G, chart, k, scanned, scanned))

(* after an ignored lexeme the row (item set) is kept, pushed once more so that "first row" stays recognisable *)
EmitS(G, L, chart, S, skip) ==
    IF skip # NoSkip /\ skip \in S THEN StartLexS(L, Append(chart, chart[Len(chart)]), skip)
    ELSE LET c2 == Scan(G, chart, S) IN IF Dead(c2) THEN DeadSt ELSE StartLexS(L, c2, skip)

AfterByteS(G, L, chart, cur2, skip) ==
    IF EndsNow(L, cur2) # {} THEN EmitS(G, L, chart, EndsNow(L, cur2), skip)
    ELSE [dead |-> FALSE, chart |-> chart, cur |-> cur2, started |-> TRUE]

StepByteS(G, L, st, b, skip) ==
    IF st.dead THEN st
    ELSE LET c2 == Derive(L, st.cur, b) IN
         IF DOMAIN c2 # {} THEN AfterByteS(G, L, st.chart, c2, skip)
         ELSE LET acc == IF st.started THEN Matching(st.cur) ELSE {} IN
              IF acc = {} THEN DeadSt
              ELSE LET s2 == EmitS(G, L, st.chart, acc, skip) IN
                   IF s2.dead THEN DeadSt
                   ELSE LET c3 == Derive(L, s2.cur, b) IN
                        IF DOMAIN c3 = {} THEN DeadSt ELSE AfterByteS(G, L, s2.chart, c3, skip)

StepByte(G, L, st, b) == StepByteS(G, L, st, b, NoSkip)

RECURSIVE StepBytesS(_, _, _, _, _)
StepBytesS(G, L, st, w, skip) ==
    IF w = <<>> \/ st.dead THEN st ELSE StepBytesS(G, L, StepByteS(G, L, st, Head(w), skip), Tail(w), skip)
StepBytes(G, L, st, w) == StepBytesS(G, L, st, w, NoSkip)

(* the input may end inside a lexeme iff the bytes so far match one; an ignored lexeme at the end leaves the row as it is *)
LexAcceptingS(G, L, st, start, skip) ==
    /\ ~st.dead
    /\ IF st.started
       THEN LET acc == Matching(st.cur) IN
            /\ acc # {}
            /\ IF skip # NoSkip /\ skip \in acc THEN AcceptingChart(st.chart, start)
               ELSE LET c2 == Scan(G, st.chart, acc) IN ~Dead(c2) /\ AcceptingChart(c2, start)
       ELSE AcceptingChart(st.chart, start)
LexAccepting(G, L, st, start) == LexAcceptingS(G, L, st, start, NoSkip)

(* bytes that do not kill the state *)
LexNext(G, L, st) == {b \in 0..255 : ~StepByte(G, L, st, b).dead}
=============================================================================
