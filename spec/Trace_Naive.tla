---------------------------- MODULE Trace_Naive ----------------------------
(* C16: recorded calls on TokTrie / SimpleVob validated against the naive model.              *)
EXTENDS Vocab, Vob, Tokenizers, TLC, Json, IOUtils

Rec == ndJsonDeserialize(IOEnv.TRACE)

VARIABLES l, ini, va, vb, tab

vars == <<l, ini, va, vb, tab>>

TInit == l = 1 /\ ini = 0 /\ va = Mk(0, {}) /\ vb = Mk(0, {}) /\ tab = <<>>

Tok == Rec[ini].tok
N == Rec[ini].n

FromJ(j) == Mk(j.size, SeqSet(j.set))

StartEpisode == Rec[l].ev = "Init" /\ ini' = l /\ va' = Mk(0, {}) /\ vb' = Mk(0, {}) /\ tab' = <<>>

(* tokenizer descriptions: the table the adapter built must give every token its bytes *)
TokTable(r) ==
    /\ r.ok = 1
    /\ Len(r.table) >= Len(r.names)
    /\ \A i \in DOMAIN r.table :
          LET name == IF i <= Len(r.names) THEN r.names[i] ELSE <<>> IN
          r.table[i] = ExpectedBytes(r.kind, r.mode, name, i - 1, (i - 1) \in SeqSet(r.special), r.space)
    /\ tab' = r.table

(* tokenising text and concatenating the token bytes returns the text *)
RoundTrip(r) == r.dec = r.text /\ Concat(tab, r.toks) = r.text

TokRound(r) ==
    /\ r.vocab_size = N
    /\ \A t \in 0..(N - 1) : r.bytes[t + 1] = Tok[t + 1]
    (* token_id(bytes) returns SOME id with exactly these bytes (duplicates exist); none for empty *)
    /\ \A t \in 0..(N - 1) :
          IF Tok[t + 1] = <<>> THEN TRUE
          ELSE r.back[t + 1] >= 0 /\ r.back[t + 1] < N /\ Tok[r.back[t + 1] + 1] = Tok[t + 1]
    /\ r.max_len = (LET L == {Len(Tok[i]) : i \in DOMAIN Tok} IN CHOOSE m \in L : \A x \in L : x <= m)

AddBias(r) ==
    /\ SeqSet(r.set) = SeqSet(r.pre) \cup NaiveMask(Tok, r.dfa, r.s0, r.start)
    /\ \A x \in SeqSet(r.set) : x < N             \* never an id at or above the vocabulary size
    /\ r.underflow = 0
    /\ r.start = <<>> => r.depth_at_finish = 0    \* the walk leaves the recognizer stack as it found it

HasExt(r) == (r.v = 1) = (\E t \in NaiveMask(Tok, r.dfa, r.s0, r.start) : Len(Tok[t + 1]) > Len(r.start))

Filter(r) ==
    LET keep == SeqSet(r.keep)
        ftok == [i \in DOMAIN Tok |-> IF (i - 1) \in keep THEN Tok[i] ELSE <<>>]
    IN  /\ r.vocab_size = N
        /\ \A i \in DOMAIN Tok : r.bytes[i] = ftok[i]
        /\ SeqSet(r.set) = NaiveMask(ftok, r.dfa, r.s0, <<>>)

Greedy(r) ==
    /\ r.dec = r.text
    /\ Concat(Tok, r.toks) = r.text
    /\ GreedyOK(Tok, r.text, r.toks)

VobNew(r) == va' = FromJ(r.a) /\ vb' = FromJ(r.b) /\ r.a.set = <<>> /\ r.b.set = <<>> /\ r.a.size = r.size

VobOp(r) ==
    LET a2 == FromJ(r.a)
        b2 == FromJ(r.b)
        expA == CASE r.op = "allow" -> VAllow(va, r.i)
                  [] r.op = "disallow" -> VDisallow(va, r.i)
                  [] r.op = "range" -> VRange(va, r.i, r.j)
                  [] r.op = "negate" -> VNegate(va)
                  [] r.op = "or" -> VOr(va, vb)
                  [] r.op = "and" -> VAnd(va, vb)
                  [] r.op = "sub" -> VSub(va, vb)
                  [] r.op = "swap" -> vb
                  [] r.op = "or_minus_neg_self" -> VOrMinus(va, vb, VNegate(va))
                  [] r.op = "set_all" -> VSetAll(va, r.i = 1)
                  [] OTHER -> va
        expB == IF r.op = "swap" THEN va ELSE vb
    IN  /\ a2 = expA /\ b2 = expB
        /\ WellFormed(a2) /\ WellFormed(b2)
        /\ r.op = "first" => r.res = First(va.set)
        /\ r.op = "count" => r.res = Cardinality(va.set)
        /\ r.op = "and_is_zero" => (r.res = 1) = (va.set \cap vb.set = {})
        /\ r.op = "first_both" => r.res = First(va.set \cap vb.set)
        /\ SeqSet(r.iter) = a2.set /\ \A i, j \in DOMAIN r.iter : i < j => r.iter[i] < r.iter[j]
        /\ va' = a2 /\ vb' = b2

Step ==
    /\ Rec[l].ev # "Init" /\ ini > 0
    /\ LET r == Rec[l] IN
       CASE r.ev = "TokTable" -> TokTable(r) /\ UNCHANGED <<va, vb>>
         [] r.ev = "RoundTrip" -> RoundTrip(r) /\ UNCHANGED <<va, vb, tab>>
         [] r.ev = "TokRound" -> TokRound(r) /\ UNCHANGED <<va, vb, tab>>
         [] r.ev = "AddBias" -> AddBias(r) /\ UNCHANGED <<va, vb, tab>>
         [] r.ev = "HasExt" -> HasExt(r) /\ UNCHANGED <<va, vb, tab>>
         [] r.ev = "Filter" -> Filter(r) /\ UNCHANGED <<va, vb, tab>>
         [] r.ev = "Greedy" -> Greedy(r) /\ UNCHANGED <<va, vb, tab>>
         [] r.ev = "VobNew" -> VobNew(r) /\ UNCHANGED tab
         [] r.ev = "VobOp" -> VobOp(r) /\ UNCHANGED tab
         [] OTHER -> FALSE
    /\ UNCHANGED ini

TNext == l <= Len(Rec) /\ l' = l + 1 /\ (StartEpisode \/ Step)
TSpec == TInit /\ [][TNext]_vars
Accepted ==
    LET d == TLCGet("stats").diameter IN
    IF d - 1 = Len(Rec) THEN TRUE ELSE PrintT(<<"REJECT", d, IF d <= Len(Rec) THEN Rec[d].ev ELSE "">>) /\ FALSE
=============================================================================
