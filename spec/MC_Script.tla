------------------------------ MODULE MC_Script ------------------------------
(***************************************************************************)
(* U2: TLC enumerates ALL call sequences of a bounded length over the      *)
(* Matcher API for one small regular-expression constraint and vocabulary  *)
(* (read from the JSON file named by env CONFIG), using the exact oracle   *)
(* of Regex.tla to know which tokens are allowed in each state.  Each      *)
(* behaviour is printed as a script; the harness replays it on the real    *)
(* engine and the recorded trace is validated by Trace_Regex.              *)
(* ops: mask, acc, ffb, validate_all, consume t (every allowed token up to *)
(* a cap, EOS when accepting, one token outside the mask), rollback k      *)
(* (1, 2, one more than the history), reset, fresh (a private engine       *)
(* replays the surviving history and is observed).                         *)
(***************************************************************************)
EXTENDS RegexSurface, Json, IOUtils

Conf == ndJsonDeserialize(IOEnv.CONFIG)[1]
R0 == CompileTop(Conf.rx)
LiveS == LiveOf(R0)
Tok(t) == Conf.tok[t + 1]
N == Len(Conf.tok)
Eos == Conf.eos
IsSpecial(t) == Tok(t) # <<>> /\ Tok(t)[1] = 255

VARIABLES hist, mode, ops
vars == <<hist, mode, ops>>

RECURSIVE Bytes(_)
Bytes(h) == IF h = <<>> THEN <<>> ELSE (IF IsSpecial(Head(h)) THEN <<>> ELSE Tok(Head(h))) \o Bytes(Tail(h))
St(h) == DS(R0, Bytes(h))
Stopped(h) == h # <<>> /\ (h[Len(h)] = Eos \/ (Nullable(St(h)) /\ \A b \in Reps(R0) : D(St(h), b) \notin LiveS))
Allowed(h, t) ==
    IF t = Eos THEN Nullable(St(h))
    ELSE ~IsSpecial(t) /\ Tok(t) # <<>> /\ DS(St(h), Tok(t)) \in LiveS
Mask(h) == {t \in 0..(N - 1) : Allowed(h, t)}
FirstK(S, k) == {t \in S : Cardinality({u \in S : u < t}) < k}

Init == hist = <<>> /\ mode = "ok" /\ ops = <<>>

Op(name, arg) == ops' = Append(ops, <<name, arg>>)

Query(name) == /\ Op(name, 0) /\ UNCHANGED <<hist, mode>>

Consume(t) ==
    /\ Op("consume", t)
    /\ IF mode = "ok" /\ ~Stopped(hist) /\ Allowed(hist, t)
       THEN hist' = Append(hist, t) /\ UNCHANGED mode
       ELSE mode' = "err" /\ UNCHANGED hist

Rollback(k) ==
    /\ Op("rollback", k)
    /\ IF mode = "ok" /\ k <= Len(hist)
       THEN hist' = SubSeq(hist, 1, Len(hist) - k) /\ UNCHANGED mode
       ELSE mode' = "err" /\ UNCHANGED hist

Reset ==
    /\ Op("reset", 0)
    /\ IF mode = "ok" THEN hist' = <<>> /\ UNCHANGED mode ELSE UNCHANGED <<hist, mode>>

Next ==
    /\ Len(ops) < Conf.depth
    /\ \/ \E q \in {"mask", "acc", "ffb", "fresh"} : Query(q)
       \/ \E t \in FirstK(Mask(hist), Conf.cap) : Consume(t)
       \/ \E t \in FirstK((0..(N - 1)) \ Mask(hist), 1) : Consume(t)
       \/ \E k \in {1, 2, Len(hist) + 1} : Rollback(k)
       \/ (Len(hist) > 1 /\ Reset)

Spec == Init /\ [][Next]_vars

(* asking for a mask after a stop latches the error: scripts do not do that except as the last op *)
Emit == Len(ops) = Conf.depth => PrintT(<<"REPLAY", ToJson(ops)>>)
=============================================================================
