---------------------------- MODULE RegexDenot ----------------------------
(* Textbook (denotational) semantics of the regex AST of Regex.tla, on RAW terms (built with   *)
(* the tuple constructors directly), independent of derivatives and of the normalising        *)
(* constructors.  MC_Regex checks that the derivative engine used as oracle agrees with it.   *)
EXTENDS Regex

Sub(w, i, j) == SubSeq(w, i, j)

RECURSIVE In(_, _), InPow(_, _, _)
(* w \in L(r)^k *)
InPow(r, k, w) ==
    IF k = 0 THEN w = <<>>
    ELSE \E i \in 0..Len(w) : In(r, Sub(w, 1, i)) /\ InPow(r, k - 1, Sub(w, i + 1, Len(w)))

In(r, w) ==
    CASE Tag(r) = "empty" -> FALSE
      [] Tag(r) = "eps" -> w = <<>>
      [] Tag(r) = "set" -> Len(w) = 1 /\ w[1] \in r[2]
      [] Tag(r) = "cat" -> \E i \in 0..Len(w) : In(r[2], Sub(w, 1, i)) /\ In(r[3], Sub(w, i + 1, Len(w)))
      [] Tag(r) = "alt" -> \E x \in r[2] : In(x, w)
      [] Tag(r) = "and" -> \A x \in r[2] : In(x, w)
      [] Tag(r) = "not" -> ~In(r[2], w)
      [] Tag(r) = "star" -> \E k \in 0..Len(w) : InPow(r[2], k, w)
      [] Tag(r) = "rep" ->
            \E k \in r[3]..(IF r[4] = Inf THEN r[3] + Len(w) ELSE r[4]) : InPow(r[2], k, w)

(* raw term -> normalised term, through the smart constructors *)
RECURSIVE Norm(_)
Norm(r) ==
    CASE Tag(r) \in {"empty", "eps"} -> r
      [] Tag(r) = "set" -> Set(r[2])
      [] Tag(r) = "cat" -> Cat(Norm(r[2]), Norm(r[3]))
      [] Tag(r) = "alt" -> Alt({Norm(x) : x \in r[2]})
      [] Tag(r) = "and" -> And({Norm(x) : x \in r[2]})
      [] Tag(r) = "not" -> Not(Norm(r[2]))
      [] Tag(r) = "star" -> Star(Norm(r[2]))
      [] Tag(r) = "rep" -> Rep(Norm(r[2]), r[3], r[4])
=============================================================================
