---------------------------- MODULE Trace_Split ----------------------------
(* C02 and the relational clauses of C13.  One grammar; engine 0 runs over the single-byte    *)
(* vocabulary, engines 1 and 2 over multi-byte vocabularies; all are kept at the same byte     *)
(* position.  Acceptance must depend on the bytes only:                                        *)
(*  - a multi-byte token is in the mask iff its bytes, validated one at a time by engine 0,   *)
(*    are all viable (Probe: ns[k] = number of viable bytes of token ids[k]);                  *)
(*  - the accepting flag and the final stop status are functions of the bytes;                 *)
(*  - bytes accepted as one token are accepted byte by byte, and re-tokenised (Sync);          *)
(*  - every byte reported as forced is the ONLY byte engine 0 allows there and the state is    *)
(*    not accepting (ForcedProbe); fast-forward tokens spell a prefix of the forced bytes.     *)
EXTENDS Naturals, Integers, Sequences, FiniteSets, TLC, Json, IOUtils

Rec == ndJsonDeserialize(IOEnv.TRACE)

VARIABLES l, ini, bs, pr, ac, fb

vars == <<l, ini, bs, pr, ac, fb>>

NoProbe == [at |-> <<-1>>, ids |-> <<>>, ns |-> <<>>]
NoAcc == [at |-> <<-1>>, v |-> 0]

TInit == l = 1 /\ ini = 0 /\ bs = <<>> /\ pr = <<>> /\ ac = <<>> /\ fb = [at |-> <<-1>>, b |-> <<>>, probed |-> FALSE]

SeqSet(s) == {s[i] : i \in DOMAIN s}
IsPrefix(p, w) == Len(p) <= Len(w) /\ SubSeq(w, 1, Len(p)) = p
Voc(v) == Rec[ini].vocs[v + 1]
TokB(v, t) == Voc(v).tok[t + 1]
RECURSIVE Concat(_, _)
Concat(v, ids) == IF ids = <<>> THEN <<>> ELSE TokB(v, Head(ids)) \o Concat(v, Tail(ids))

StartEpisode ==
    /\ Rec[l].ev = "Init" /\ ini' = l
    /\ bs' = [e \in 0..2 |-> <<>>]
    /\ pr' = [v \in 1..2 |-> NoProbe]
    /\ ac' = [e \in 0..2 |-> NoAcc]
    /\ fb' = [at |-> <<-1>>, b |-> <<>>, probed |-> FALSE]

Ev(r) ==
    CASE r.ev = "New" -> UNCHANGED <<bs, pr, ac, fb>>   \* a grammar that does not compile ends the episode
      [] r.ev = "Probe" ->
            /\ pr' = [pr EXCEPT ![r.v] = [at |-> bs[0], ids |-> r.ids, ns |-> r.ns]]
            /\ \A k \in DOMAIN r.ns : r.ns[k] >= 0 /\ r.ns[k] <= Len(TokB(r.v, r.ids[k]))
            /\ UNCHANGED <<bs, ac, fb>>
      [] r.ev = "Acc" ->
            /\ \A f \in 0..2 : ac[f].at = bs[r.e] => ac[f].v = r.v
            /\ ac' = [ac EXCEPT ![r.e] = [at |-> bs[r.e], v |-> r.v]]
            /\ UNCHANGED <<bs, pr, fb>>
      [] r.ev = "Mask" ->
            LET v == r.e
                p == pr[v]
                M == SeqSet(r.set)
                eos == Voc(v).eos
                byBytes == {p.ids[k] : k \in {j \in DOMAIN p.ids : p.ns[j] = Len(TokB(v, p.ids[j]))}}
                narrowed == Voc(v).canon = 1 /\ Cardinality(M) = 1 /\ fb.at = bs[r.e] /\ fb.b # <<>>
            IN  /\ r.ok = 1
                /\ p.at = bs[r.e]                       \* a probe at the same byte position exists
                /\ IF narrowed THEN M \subseteq byBytes \cup {eos}
                   ELSE \A k \in DOMAIN p.ids : (p.ids[k] \in M) = (p.ids[k] \in byBytes)
                /\ ac[r.e].at = bs[r.e] /\ ~narrowed => ((eos \in M) = (ac[r.e].v = 1))
                /\ UNCHANGED <<bs, pr, ac, fb>>
      [] r.ev = "FFBytes" ->
            /\ fb' = [at |-> bs[r.e], b |-> r.b, probed |-> r.b = <<>>]
            /\ UNCHANGED <<bs, pr, ac>>
      [] r.ev = "ForcedProbe" ->
            /\ fb.at = bs[0] /\ fb.b = r.b
            /\ Len(r.masks) = Len(r.b) /\ Len(r.accs) = Len(r.b)
            /\ \A i \in DOMAIN r.b : r.masks[i] = <<r.b[i]>> /\ r.accs[i] = 0
            /\ fb' = [fb EXCEPT !.probed = TRUE]
            /\ UNCHANGED <<bs, pr, ac>>
      [] r.ev = "FFTokens" ->
            /\ fb.at = bs[r.e] /\ fb.probed
            /\ IsPrefix(Concat(r.e, r.toks), fb.b)
            /\ UNCHANGED <<bs, pr, ac, fb>>
      [] r.ev = "Consume" ->
            /\ r.ok = 1
            /\ bs' = [bs EXCEPT ![r.e] = bs[r.e] \o TokB(r.e, r.t)]
            /\ UNCHANGED <<pr, ac, fb>>
      [] r.ev = "ConsumeBytes" ->
            /\ r.ok = 1      \* bytes accepted as one token are accepted one by one
            /\ bs' = [bs EXCEPT ![0] = bs[0] \o r.b]
            /\ bs'[0] = bs[1]
            /\ UNCHANGED <<pr, ac, fb>>
      [] r.ev = "Sync" ->
            /\ Concat(2, r.toks) = bs[0]
            /\ r.ok = 1      \* another tokenisation of the same bytes is accepted too
            /\ bs' = [bs EXCEPT ![2] = bs[0]]
            /\ UNCHANGED <<pr, ac, fb>>
      [] r.ev = "Prompt" ->
            (* returned prompt + pending forced text = original prompt + the grammar's forced bytes *)
            /\ r.ok = 1
            /\ r.ret \o r.pending = r.prompt \o r.fresh
            /\ UNCHANGED <<bs, pr, ac, fb>>
      [] r.ev = "End" -> (bs[0] = bs[1] => r.st0 = r.st1) /\ UNCHANGED <<bs, pr, ac, fb>>
      (* a call that failed with a resource limit (item / fuel limits on very ambiguous grammars) says nothing *)
      [] r.ev = "Limit" -> UNCHANGED <<bs, pr, ac, fb>>
      [] OTHER -> FALSE

Step == Rec[l].ev # "Init" /\ ini > 0 /\ Ev(Rec[l]) /\ UNCHANGED ini
TNext == l <= Len(Rec) /\ l' = l + 1 /\ (StartEpisode \/ Step)
TSpec == TInit /\ [][TNext]_vars
Accepted ==
    LET d == TLCGet("stats").diameter IN
    IF d - 1 = Len(Rec) THEN TRUE ELSE PrintT(<<"REJECT", d>>) /\ FALSE
=============================================================================
