SPECIFICATION Spec
CONSTANTS
  Alphabet = {1, 2}
  MaxLen = 2
  MaxTok = 2
  MaxStart = 1
  Emit = TRUE
INVARIANTS EmitReplay
CHECK_DEADLOCK FALSE
