SPECIFICATION Spec
CONSTANTS K = 4
 Cap = 100
 N = 40
INVARIANT Exact
INVARIANT ExactNested
CHECK_DEADLOCK FALSE
