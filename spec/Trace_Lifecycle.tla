-------------------------- MODULE Trace_Lifecycle --------------------------
EXTENDS Lifecycle, TLC, Json, IOUtils
Rec == ndJsonDeserialize(IOEnv.TRACE)
VARIABLE l
vars == <<phase, l>>
Budget == 15000     \* milliseconds per construction / call under the configured limits

TInit == phase = "idle" /\ l = 1
Ev(r) == Begin(r) \/ Build(r, Budget) \/ Call(r, Budget) \/ TCall(r, Budget) \/ End(r) \/ (r.ev = "Init" /\ UNCHANGED phase)
TNext == l <= Len(Rec) /\ l' = l + 1 /\ Ev(Rec[l])
TSpec == TInit /\ [][TNext]_vars
Accepted ==
    LET d == TLCGet("stats").diameter IN
    IF d - 1 = Len(Rec) THEN TRUE ELSE PrintT(<<"REJECT", d>>) /\ FALSE
=============================================================================
