------------------------------ MODULE Trace_Ffi ------------------------------
EXTENDS Ffi, TLC, Json, IOUtils

Rec == ndJsonDeserialize(IOEnv.TRACE)
VARIABLE l

Ev(r) ==
    CASE r.ev = "Init" -> TRUE
      [] r.ev = "Pair" ->
            /\ r.c = r.r
            /\ r.api = "compute_mask" => \A b \in SeqSet(r.c.bits) : b < r.n_vocab
      [] r.ev = "MaskInto" ->
            /\ r.canl = 1 /\ r.canr = 1
            /\ MaskIntoOK(r.exact, r.len, r.ret, SeqSet(r.before), SeqSet(r.after), SeqSet(r.mask))
      [] r.ev = "ParMask" ->
            /\ r.canl = 1 /\ r.canr = 1
            /\ r.cerr = (IF r.rok = 1 THEN 0 ELSE 1)
            /\ r.rok = 1 =>
                 /\ SeqSet(r.after) = ParMaskExpected(r.len, r.nwords, SeqSet(r.mask), r.stop = 1, r.eos)
                 /\ \A b \in SeqSet(r.after) : b < r.n_vocab     \* only bits of real token ids
      [] OTHER -> FALSE

Init == l = 1
Next == l <= Len(Rec) /\ l' = l + 1 /\ Ev(Rec[l])
TSpec == Init /\ [][Next]_l
Accepted ==
    LET d == TLCGet("stats").diameter IN
    IF d - 1 = Len(Rec) THEN TRUE ELSE PrintT(<<"REJECT", d>>) /\ FALSE
=============================================================================
