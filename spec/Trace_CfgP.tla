----------------------------- MODULE Trace_CfgP -----------------------------
(* Exact-mode trace validation for PARAMETRIC Lark grammars (C05): same obligations as Trace_Cfg. *)
EXTENDS EngineRel, CfgP, Json, IOUtils

Rec == ndJsonDeserialize(IOEnv.TRACE)

VARIABLES l, ini, gx, ch
vars == <<eng, F, A, l, ini, gx, ch>>

TInit == EInit /\ l = 1 /\ ini = 0 /\ gx = <<>> /\ ch = <<>>

StartEpisode ==
    /\ Rec[l].ev = "Init"
    /\ eng' = <<>> /\ F' = <<>> /\ A' = <<>>
    /\ ini' = l
    /\ LET P == Prods(Rec[l].pcfg.rules) IN
       /\ gx' = [P |-> P, start |-> Rec[l].pcfg.start]
       /\ ch' = (<<>> :> PChart0(P, Rec[l].pcfg.start))

Voc(c) == Rec[ini].cfgs[c + 1]
TokBytes(c, t) == Voc(c).tok[t + 1]
IsSpecial(c, t) == LET b == TokBytes(c, t) IN b # <<>> /\ b[1] = 255

RECURSIVE HistBytes(_, _)
HistBytes(c, h) ==
    IF h = <<>> THEN <<>>
    ELSE (IF IsSpecial(c, Head(h)) THEN <<>> ELSE TokBytes(c, Head(h))) \o HistBytes(c, Tail(h))

Push(chart, w) == PPushBytes(gx.P, chart, w)
ChartOf(hb) ==
    IF hb \in DOMAIN ch THEN ch[hb]
    ELSE LET ks == {k \in 0..Len(hb) : SubSeq(hb, 1, k) \in DOMAIN ch}
             k == CHOOSE x \in ks : \A y \in ks : y <= x
         IN  Push(ch[SubSeq(hb, 1, k)], SubSeq(hb, k + 1, Len(hb)))

IsAcc(chart) == ~PDead(chart) /\ PAccepting(gx.P, chart, gx.start)
Allowed(c, chart, t) ==
    IF t = Voc(c).eos THEN IsAcc(chart)
    ELSE ~IsSpecial(c, t) /\ TokBytes(c, t) # <<>> /\ ~PDead(Push(chart, TokBytes(c, t)))
Text(c) == {t \in 0..(Voc(c).n - 1) : ~IsSpecial(c, t) \/ t = Voc(c).eos}
ExactMask(c, chart) ==
    LET nb == PNextBytes(gx.P, chart)
        acc == IsAcc(chart)
    IN  {t \in Text(c) :
            IF t = Voc(c).eos THEN acc
            ELSE LET w == TokBytes(c, t) IN
                 /\ w # <<>> /\ w[1] \in nb
                 /\ (Len(w) = 1 \/ ~PDead(Push(chart, w)))}

Exact(r) ==
    IF r.ev \in {"Init", "New", "Clone"} \/ ~Has(r.e) \/ ~Ok(r.e) THEN TRUE
    ELSE
    LET s == eng[r.e]
        c == s.cfgi
        st == ChartOf(HistBytes(c, s.hist))
        txt == Text(c)
    IN
    CASE r.ev \in {"Mask", "MaskOrEos"} /\ r.ok = 1 /\ ~Stopped(r.e) ->
            LET M == SeqToSet(r.set) IN
            IF s.canon = 1 /\ Cardinality(M) = 1 /\ ExactMask(c, st) # M
            THEN M \subseteq ExactMask(c, st)
            ELSE M \cap txt = ExactMask(c, st) /\ M \subseteq txt
      [] r.ev = "ValidateAll" /\ r.ok = 1 /\ ~Stopped(r.e) -> SeqToSet(r.set) \cap txt = ExactMask(c, st)
      [] r.ev = "Acc" /\ r.ok = 1 /\ ~Stopped(r.e) -> (r.v = 1) = IsAcc(st)
      [] r.ev = "Consume" /\ ~Stopped(r.e) /\ r.t < s.n /\ (r.t \in txt) /\ ~(r.ok = 0 /\ r.cls = "limit") -> (r.ok = 1) = Allowed(c, st, r.t)
      [] OTHER -> TRUE

Explain(r) ==
    IF ~Has(r.e) \/ ~Ok(r.e) THEN TRUE ELSE
    LET s == eng[r.e]
        st == ChartOf(HistBytes(s.cfgi, s.hist))
    IN PrintT(<<"WHY", r.ev, "hist", s.hist, "bytes", HistBytes(s.cfgi, s.hist), "expected-mask", ExactMask(s.cfgi, st),
                "accepting", IsAcc(st), "next-bytes", PNextBytes(gx.P, st)>>)

Remember(r) ==
    IF r.ev \in {"Init", "New", "Clone"} \/ ~Has(r.e) THEN UNCHANGED ch
    ELSE LET hb == HistBytes(eng[r.e].cfgi, eng[r.e].hist) IN
         IF hb \in DOMAIN ch THEN UNCHANGED ch ELSE ch' = (hb :> ChartOf(hb)) @@ ch

Step ==
    /\ Rec[l].ev # "Init" /\ ini > 0
    /\ LET r == Rec[l]
           voc == IF r.ev = "New" THEN Rec[ini].cfgs[r.c + 1] ELSE <<>>
       IN /\ ENext(r, voc)
          /\ (IF Exact(r) THEN TRUE ELSE (IOEnv.EXPLAIN = "1" /\ Explain(r) /\ FALSE))
          /\ Remember(r)
    /\ UNCHANGED <<ini, gx>>

TNext == l <= Len(Rec) /\ l' = l + 1 /\ (StartEpisode \/ Step)
TSpec == TInit /\ [][TNext]_vars
Accepted ==
    LET d == TLCGet("stats").diameter IN
    IF d - 1 = Len(Rec) THEN TRUE ELSE PrintT(<<"REJECT", d>>) /\ FALSE
=============================================================================
