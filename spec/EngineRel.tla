--------------------------- MODULE EngineRel ---------------------------
(***************************************************************************)
(* Reference model of the llguidance `Matcher` API with a LEARNED oracle.   *)
(*                                                                         *)
(* The grammar is unknown to this module.  What it states is that there IS  *)
(* a language: every observable of an engine is a function of the          *)
(* configuration class and the committed token history, and one acceptance *)
(* relation  accepts(hist, tok)  explains every mask, validation and        *)
(* commit.  The functions are learned from the events; an event that       *)
(* contradicts what was learned earlier in the episode has no action.      *)
(*                                                                         *)
(* Actions take the event record `r` (one public API call, logged at its   *)
(* return) as parameter; Trace_EngineRel binds r to the recorded trace,    *)
(* MC_EngineRel binds it to a small set of synthetic records.              *)
(***************************************************************************)
EXTENDS Naturals, Sequences, FiniteSets, TLC

CONSTANT FactsOn   \* TRUE: the acceptance relation is learned too (C01, C18); FALSE: only the
                   \* functional dependence of observables on the history (C10, C11, C12, C14)

VARIABLES
    eng,    \* engine id -> [hist, mode, stop, c, n, eos, canon]
    F,      \* learned observations: <<field, class, hist>> -> value
    A       \* learned acceptance:   <<class, hist>> -> [pos, neg] (sets of token ids)

evars == <<eng, F, A>>

NormalStops == {"NotStopped", "NoExtension", "EndOfSentence", "NoExtensionBias"}

SeqToSet(s) == {s[i] : i \in DOMAIN s}
Prefix(s, n) == SubSeq(s, 1, n)

EInit ==
    /\ eng = <<>>
    /\ F = <<>>
    /\ A = <<>>

---------------------------------------------------------------------------
(* Learning.  `obs` is a set of <<key, value>> pairs, `facts` a set of      *)
(* <<<<class, hist>>, token, BOOLEAN>> triples.                              *)

ObsConsistent(obs) ==
    /\ \A p \in obs : p[1] \in DOMAIN F => F[p[1]] = p[2]
    /\ \A p, q \in obs : p[1] = q[1] => p[2] = q[2]

LearnObs(obs) ==
    /\ ObsConsistent(obs)
    /\ LET new == {p \in obs : p[1] \notin DOMAIN F}
       IN  F' = [k \in DOMAIN F \cup {p[1] : p \in new} |->
                    IF k \in DOMAIN F THEN F[k] ELSE (CHOOSE p \in new : p[1] = k)[2]]

PosOf(k) == IF k \in DOMAIN A THEN A[k].pos ELSE {}
NegOf(k) == IF k \in DOMAIN A THEN A[k].neg ELSE {}

(* `sets` is a set of records [k, pos, neg]: whole sets of facts for one key *)
LearnSets(sets) ==
    LET keys == {s.k : s \in sets}
        NewPos(k) == PosOf(k) \cup UNION {s.pos : s \in {x \in sets : x.k = k}}
        NewNeg(k) == NegOf(k) \cup UNION {s.neg : s \in {x \in sets : x.k = k}}
    IN  IF ~FactsOn THEN UNCHANGED A ELSE
        /\ \A k \in keys : NewPos(k) \cap NewNeg(k) = {}
        /\ A' = [k \in DOMAIN A \cup keys |->
                    IF k \in keys THEN [pos |-> NewPos(k), neg |-> NewNeg(k)] ELSE A[k]]

NoFacts == {}
PosFact(c, h, t) == [k |-> <<c, h>>, pos |-> {t}, neg |-> {}]
NegFact(c, h, t) == [k |-> <<c, h>>, pos |-> {}, neg |-> {t}]

(* tokens seq[1..n] accepted one after the other starting from history h *)
ChainPos(c, h, seq, n) == {PosFact(c, h \o Prefix(seq, i - 1), seq[i]) : i \in 1..n}

---------------------------------------------------------------------------
(* Engine bookkeeping                                                      *)

Has(e) == e \in DOMAIN eng
Ok(e) == eng[e].mode = "ok"
Stopped(e) == eng[e].stop # "NotStopped"
Put(e, s) == eng' = [x \in DOMAIN eng \cup {e} |-> IF x = e THEN s ELSE eng[x]]

(* what every event reports after the call: error flag and stop reason *)
PostOk(r, s) ==
    /\ r.er = (IF s.mode = "err" THEN 1 ELSE 0)
    /\ r.st = (IF s.mode = "err" THEN "InternalError" ELSE s.stop)

Failed(s) == [s EXCEPT !.mode = "err"]

StopKey(s, h) == <<"stop", s.c, h>>

(* In the error mode every call fails and changes nothing. *)
ErrCall(r) ==
    /\ Has(r.e) /\ ~Ok(r.e)
    /\ r.ev \in {"Mask", "MaskOrEos", "Consume", "ConsumeTokens", "TryConsume", "Validate",
                 "ValidateAll", "Acc", "Rollback", "Reset"} => r.ok = 0
    /\ r.ev = "FFBytes" => r.b = <<>>
    /\ r.ev \in {"FFTokens", "ConsumeFF"} => r.toks = <<>>
    /\ r.ev = "Status" => r.stopped = 1
    /\ r.ev \in {"Mask", "MaskOrEos", "Consume", "ConsumeTokens", "TryConsume", "Validate",
                 "ValidateAll", "Acc", "Rollback", "Reset", "FFBytes", "FFTokens",
                 "ConsumeFF", "Status", "Invalidate"}
    /\ PostOk(r, eng[r.e])
    /\ UNCHANGED evars

---------------------------------------------------------------------------
(* Construction and cloning                                                *)

New(r, voc) ==
    /\ r.ev = "New"
    /\ LET s == [hist |-> <<>>, mode |-> IF r.ok = 1 THEN "ok" ELSE "err",
                 stop |-> "NotStopped", c |-> r.vid, cfgi |-> r.c, bc |-> voc.bc, n |-> voc.n, eos |-> voc.eos,
                 (* every end-of-sequence id of the vocabulary (TokTrie::with_eos_tokens); eos is the primary one *)
                 eosx |-> IF "eosx" \in DOMAIN voc THEN SeqToSet(voc.eosx) ELSE {voc.eos},
                 canon |-> voc.canon,
                 (* the grammar neither names tokens nor has a lexeme that ends at EOS (stop=""): then EVERY committed *)
                 (* end-of-sequence token, primary or not, ends the run                                              *)
                 eosplain |-> IF "eosplain" \in DOMAIN voc THEN voc.eosplain = 1 ELSE FALSE]
       IN /\ Put(r.e, s)
          /\ PostOk(r, s)
    /\ UNCHANGED <<F, A>>

Clone(r) ==
    /\ r.ev = "Clone"
    /\ Has(r.from)
    /\ Put(r.e, eng[r.from])
    /\ PostOk(r, eng[r.from])
    /\ UNCHANGED <<F, A>>

---------------------------------------------------------------------------
(* Read-only queries: the engine state does not change (C11), the answer    *)
(* is a function of (class, history).                                      *)

InVocab(s, set) == \A t \in set : t < s.n

Mask(r) ==
    /\ r.ev = "Mask" /\ Has(r.e) /\ Ok(r.e)
    /\ LET s == eng[r.e] IN
       IF Stopped(r.e) \/ r.ok = 0
       THEN (* asking for a mask after a stop is an error and latches the failure;   *)
            (* a mask may otherwise fail only with a resource limit                  *)
            /\ r.ok = 0
            (* "empty": no token of the vocabulary can continue (NoExtensionBias); only possible    *)
            (* where nothing is known to be acceptable (whether that is legitimate is C03's claim) *)
            /\ \/ Stopped(r.e)
               \/ r.cls = "limit"
               \/ r.cls = "empty" /\ PosOf(<<s.c, s.hist>>) = {} /\ s.bc = 0
                  (* with a byte-complete vocabulary a reachable state always has a continuation  *)
                  (* or is accepting (C03): an empty mask / NoExtensionBias there has no action   *)
            /\ Put(r.e, Failed(s)) /\ PostOk(r, Failed(s))
            /\ UNCHANGED <<F, A>>
       ELSE LET M == SeqToSet(r.set)
                fk == <<"fft", s.c, s.hist>>
                narrowed == s.canon = 1 /\ fk \in DOMAIN F /\ F[fk] # <<>>
                unknown == s.canon = 1 /\ fk \notin DOMAIN F
            IN  /\ InVocab(s, M)
                /\ M # {}
                /\ LearnObs({<<<<"mask", s.c, s.hist>>, M>>, <<<<"nb", s.c, <<>> >>, r.nb>>})
                /\ IF narrowed
                   THEN /\ M = {F[fk][1]}
                        /\ LearnSets({[k |-> <<s.c, s.hist>>, pos |-> M, neg |-> {}]})
                   ELSE IF unknown
                   THEN LearnSets({[k |-> <<s.c, s.hist>>, pos |-> M, neg |-> {}]})
                   ELSE LearnSets({[k |-> <<s.c, s.hist>>, pos |-> M, neg |-> (0..(s.n - 1)) \ M]})
                /\ PostOk(r, s)
                /\ UNCHANGED eng

MaskOrEos(r) ==
    /\ r.ev = "MaskOrEos" /\ Has(r.e) /\ Ok(r.e)
    /\ LET s == eng[r.e] IN
       IF Stopped(r.e)
       THEN /\ r.ok = 1 /\ SeqToSet(r.set) = s.eosx
            /\ PostOk(r, s) /\ UNCHANGED evars
       ELSE IF r.ok = 0
       THEN /\ r.cls = "limit" /\ Put(r.e, Failed(s)) /\ PostOk(r, Failed(s)) /\ UNCHANGED <<F, A>>
       ELSE /\ LearnObs({<<<<"mask", s.c, s.hist>>, SeqToSet(r.set)>>})
            /\ PostOk(r, s) /\ UNCHANGED <<eng, A>>

ValidateAll(r) ==
    /\ r.ev = "ValidateAll" /\ Has(r.e) /\ Ok(r.e) /\ r.ok = 1
    /\ LET s == eng[r.e]
           V == SeqToSet(r.set)
       IN  /\ InVocab(s, V)
           /\ IF Stopped(r.e) THEN V = {} /\ UNCHANGED A
              ELSE LearnSets({[k |-> <<s.c, s.hist>>, pos |-> V, neg |-> (0..(s.n - 1)) \ V]})
           /\ PostOk(r, s)
           /\ UNCHANGED <<eng, F>>

Validate(r) ==
    /\ r.ev = "Validate" /\ Has(r.e) /\ Ok(r.e)
    /\ LET s == eng[r.e]
           seq == r.seq
           oor == \E i \in DOMAIN seq : seq[i] >= s.n
       IN  IF Stopped(r.e)
           THEN /\ r.ok = 1 /\ r.n = 0 /\ PostOk(r, s) /\ UNCHANGED evars
           ELSE IF oor /\ seq # <<>>
           THEN /\ r.ok = 0 /\ Put(r.e, Failed(s)) /\ PostOk(r, Failed(s)) /\ UNCHANGED <<F, A>>
           ELSE /\ r.ok = 1
                /\ r.n <= Len(seq)
                /\ LearnSets(ChainPos(s.c, s.hist, seq, r.n)
                     \cup (IF r.n < Len(seq) /\ (r.n = 0 \/ seq[r.n] \notin s.eosx)
                           THEN {NegFact(s.c, s.hist \o Prefix(seq, r.n), seq[r.n + 1])}
                           ELSE {}))
                /\ LearnObs({<<<<"val", s.c, s.hist, seq>>, r.n>>})
                /\ PostOk(r, s)
                /\ UNCHANGED eng

(* every token of `tried` committed on its own throw-away clone of the engine; `okset` = the  *)
(* ones whose commit succeeded                                                              *)
ConsumeEach(r) ==
    /\ r.ev = "ConsumeEach" /\ Has(r.e) /\ Ok(r.e) /\ ~Stopped(r.e)
    /\ LET s == eng[r.e]
           tried == SeqToSet(r.tried)
           okset == SeqToSet(r.okset)
       IN  /\ okset \subseteq tried
           /\ InVocab(s, okset)
           /\ LearnSets({[k |-> <<s.c, s.hist>>, pos |-> okset, neg |-> tried \ okset]})
           /\ UNCHANGED <<eng, F>>

Acc(r) ==
    /\ r.ev = "Acc" /\ Has(r.e) /\ Ok(r.e) /\ r.ok = 1
    /\ LET s == eng[r.e] IN
       (* a normal stop is only ever reported where the text is complete *)
       /\ s.stop \in {"NoExtension", "EndOfSentence"} => r.v = 1
       /\ LearnObs({<<<<"acc", s.c, s.hist>>, r.v>>})
       /\ IF Stopped(r.e) THEN UNCHANGED A
          ELSE IF r.v = 1 THEN LearnSets({PosFact(s.c, s.hist, e) : e \in s.eosx})
          ELSE LearnSets({NegFact(s.c, s.hist, e) : e \in s.eosx})
       /\ PostOk(r, s)
       /\ UNCHANGED eng

FFBytes(r) ==
    /\ r.ev = "FFBytes" /\ Has(r.e) /\ Ok(r.e)
    /\ LET s == eng[r.e] IN
       /\ LearnObs({<<<<"ffb", s.c, s.hist>>, r.b>>})
       /\ PostOk(r, s)
       /\ UNCHANGED <<eng, A>>

FFTokens(r) ==
    /\ r.ev = "FFTokens" /\ Has(r.e) /\ Ok(r.e)
    /\ LET s == eng[r.e] IN
       /\ s.canon = 0 => r.toks = <<>>
       /\ LearnObs({<<<<"fft", s.c, s.hist>>, r.toks>>})
       /\ PostOk(r, s)
       /\ UNCHANGED <<eng, A>>

Status(r) ==
    /\ r.ev = "Status" /\ Has(r.e) /\ Ok(r.e)
    /\ r.stopped = (IF Stopped(r.e) THEN 1 ELSE 0)
    /\ PostOk(r, eng[r.e])
    /\ UNCHANGED evars

Invalidate(r) ==
    /\ r.ev = "Invalidate" /\ Has(r.e) /\ Ok(r.e)
    /\ PostOk(r, eng[r.e])
    /\ UNCHANGED evars

---------------------------------------------------------------------------
(* Commits                                                                 *)

(* state after successfully committing `seq` from s; the stop status reached   *)
(* is whatever the event reports, but it must be a function of the history     *)
After(s, seq, st) == [s EXCEPT !.hist = s.hist \o seq, !.stop = st]

Consume(r) ==
    /\ r.ev = "Consume" /\ Has(r.e) /\ Ok(r.e)
    /\ LET s == eng[r.e] IN
       IF Stopped(r.e) \/ r.t >= s.n
       THEN /\ r.ok = 0 /\ Put(r.e, Failed(s)) /\ PostOk(r, Failed(s)) /\ UNCHANGED <<F, A>>
       ELSE IF r.ok = 1
       THEN LET s2 == After(s, <<r.t>>, r.st) IN
            /\ r.st \in NormalStops \ {"NoExtensionBias"}
            (* EOS ends the run only where the state is accepting; a grammar may also name the   *)
            (* EOS id as an ordinary token (<[...]> ranges), then it is consumed like any other  *)
            /\ r.st = "EndOfSentence" => r.t \in s.eosx
            /\ (s.eosplain /\ r.t \in s.eosx) => r.st = "EndOfSentence"
            /\ LearnSets({PosFact(s.c, s.hist, r.t)})
            /\ LearnObs({<<StopKey(s, s2.hist), r.st>>})
            /\ Put(r.e, s2) /\ PostOk(r, s2)
       ELSE /\ IF r.cls = "limit" THEN UNCHANGED A ELSE LearnSets({NegFact(s.c, s.hist, r.t)})
            /\ Put(r.e, Failed(s)) /\ PostOk(r, Failed(s)) /\ UNCHANGED F

ConsumeTokens(r) ==
    /\ r.ev = "ConsumeTokens" /\ Has(r.e) /\ Ok(r.e)
    /\ LET s == eng[r.e]
           seq == r.seq
       IN
       IF seq = <<>> THEN /\ r.ok = 1 /\ PostOk(r, s) /\ UNCHANGED evars
       ELSE IF Stopped(r.e) \/ (\E i \in DOMAIN seq : seq[i] >= s.n)
       THEN /\ r.ok = 0 /\ Put(r.e, Failed(s)) /\ PostOk(r, Failed(s)) /\ UNCHANGED <<F, A>>
       ELSE IF r.ok = 1
       THEN LET s2 == After(s, seq, r.st) IN
            /\ r.st \in NormalStops \ {"NoExtensionBias"}
            /\ LearnSets(ChainPos(s.c, s.hist, seq, Len(seq)))
            /\ LearnObs({<<StopKey(s, s2.hist), r.st>>})
            /\ Put(r.e, s2) /\ PostOk(r, s2)
       ELSE /\ Put(r.e, Failed(s)) /\ PostOk(r, Failed(s)) /\ UNCHANGED <<F, A>>

TryConsume(r) ==
    /\ r.ev = "TryConsume" /\ Has(r.e) /\ Ok(r.e)
    /\ LET s == eng[r.e]
           seq == r.seq
       IN
       IF Stopped(r.e) THEN /\ r.ok = 1 /\ r.n = 0 /\ PostOk(r, s) /\ UNCHANGED evars
       ELSE IF \E i \in DOMAIN seq : seq[i] >= s.n
       THEN (* an out-of-range id is an error as soon as it is reached *)
            /\ r.ok = 0 /\ Put(r.e, Failed(s)) /\ PostOk(r, Failed(s)) /\ UNCHANGED <<F, A>>
       ELSE /\ r.ok = 1 /\ r.n <= Len(seq)
            /\ LET s2 == After(s, Prefix(seq, r.n), r.st) IN
               /\ r.st \in NormalStops \ {"NoExtensionBias"}
               /\ LearnSets(ChainPos(s.c, s.hist, seq, r.n)
                     \cup (IF r.n < Len(seq) /\ r.st = "NotStopped"
                           THEN {NegFact(s.c, s2.hist, seq[r.n + 1])} ELSE {}))
               /\ LearnObs({<<StopKey(s, s2.hist), r.st>>})
               /\ Put(r.e, s2) /\ PostOk(r, s2)

ConsumeFF(r) ==
    /\ r.ev = "ConsumeFF" /\ Has(r.e) /\ Ok(r.e)
    /\ LET s == eng[r.e] IN
       IF Stopped(r.e) THEN /\ r.toks = <<>> /\ PostOk(r, s) /\ UNCHANGED evars
       ELSE LET s2 == After(s, r.toks, r.st) IN
            /\ s.canon = 0 => r.toks = <<>>
            /\ r.st \in NormalStops \ {"NoExtensionBias"}
            /\ LearnObs({<<<<"fft", s.c, s.hist>>, r.toks>>, <<StopKey(s, s2.hist), r.st>>})
            /\ LearnSets(ChainPos(s.c, s.hist, r.toks, Len(r.toks)))
            /\ Put(r.e, s2) /\ PostOk(r, s2)

---------------------------------------------------------------------------
(* Rollback (C12): the engine is exactly where it was k tokens ago; a       *)
(* normal stop is undone; everything learned for the shorter history --    *)
(* on this or on any other engine -- keeps holding.                        *)

RollbackTo(r, k) ==
    LET s == eng[r.e] IN
    IF k = 0 THEN /\ r.ok = 1 /\ PostOk(r, s) /\ UNCHANGED evars
    ELSE IF k > Len(s.hist)
    THEN /\ r.ok = 0 /\ Put(r.e, Failed(s)) /\ PostOk(r, Failed(s)) /\ UNCHANGED <<F, A>>
    ELSE LET h2 == Prefix(s.hist, Len(s.hist) - k)
             s2 == [s EXCEPT !.hist = h2, !.stop = "NotStopped"]
         IN /\ r.ok = 1
            (* a history that can be rolled back to was left by a commit, so it was not stopped *)
            /\ LearnObs({<<StopKey(s, h2), "NotStopped">>})
            /\ Put(r.e, s2) /\ PostOk(r, s2)
            /\ UNCHANGED A

Rollback(r) == r.ev = "Rollback" /\ Has(r.e) /\ Ok(r.e) /\ RollbackTo(r, r.k)
Reset(r) == r.ev = "Reset" /\ Has(r.e) /\ Ok(r.e) /\ RollbackTo(r, Len(eng[r.e].hist))

---------------------------------------------------------------------------
ENext(r, voc) ==
    \/ New(r, voc) \/ Clone(r) \/ ErrCall(r)
    \/ Mask(r) \/ MaskOrEos(r) \/ ValidateAll(r) \/ ConsumeEach(r) \/ Validate(r) \/ Acc(r)
    \/ FFBytes(r) \/ FFTokens(r) \/ Status(r) \/ Invalidate(r)
    \/ Consume(r) \/ ConsumeTokens(r) \/ TryConsume(r) \/ ConsumeFF(r)
    \/ Rollback(r) \/ Reset(r)

(* Invariants of the model itself *)
TypeOK ==
    /\ \A e \in DOMAIN eng : eng[e].mode \in {"ok", "err"}
    /\ \A k \in DOMAIN A : A[k].pos \cap A[k].neg = {}

(* an engine that failed never comes back *)
ErrAbsorbing == [][\A e \in DOMAIN eng : eng[e].mode = "err" => (e \in DOMAIN eng' /\ eng'[e].mode = "err")]_evars
=============================================================================
