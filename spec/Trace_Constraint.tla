-------------------------- MODULE Trace_Constraint --------------------------
EXTENDS Constraint, TLC, Json, IOUtils

Rec == ndJsonDeserialize(IOEnv.TRACE)
VARIABLES l, ini
vars == <<last, dead, l, ini>>

TInit == CInit /\ l = 1 /\ ini = 0

Ev(r) ==
    CASE r.ev = "Init" -> last' = "noop" /\ dead' = FALSE /\ ini' = l
      [] r.ev = "CNew" -> (IF r.ok = 1 THEN UNCHANGED cvars ELSE dead' = TRUE /\ UNCHANGED last) /\ UNCHANGED ini
      [] r.ev = "CMask" -> CMask(r, Rec[ini].n) /\ UNCHANGED ini
      [] r.ev = "CCommit" -> CCommit(r, Rec[ini].n, Rec[ini].ff = 1) /\ UNCHANGED ini
      [] OTHER -> FALSE

TNext == l <= Len(Rec) /\ l' = l + 1 /\ Ev(Rec[l])
TSpec == TInit /\ [][TNext]_vars
Accepted ==
    LET d == TLCGet("stats").diameter IN
    IF d - 1 = Len(Rec) THEN TRUE ELSE PrintT(<<"REJECT", d>>) /\ FALSE
=============================================================================
