------------------------------ MODULE TrieWalk ------------------------------
(***************************************************************************)
(* The token trie of toktrie/src/toktree.rs as the implementation builds   *)
(* and walks it (C16): TrieBuilder::insert (duplicates become sibling      *)
(* nodes), serialize_node (depth-first array of nodes with subtree sizes   *)
(* and "number of parents to pop"), and the branch-free walk of            *)
(* add_bias_inner / has_valid_extensions that drives a stack recogniser    *)
(* with pop_bytes / try_push_byte.                                         *)
(*                                                                         *)
(* Token ids are 0-based: vocab[i + 1] holds the bytes of token i; the     *)
(* node array is 1-based: nodes[1] is the root.                            *)
(*                                                                         *)
(* One walk is a sequence of steps of the state record                     *)
(*   [p, endp, nextPop, stack, toks, phase]                                *)
(* phase "pop" -> "push" -> ("pop" | "final") -> "done"; the answer of the *)
(* recogniser to try_push_byte is the only input.  The same step function  *)
(* is used (a) by the model MC_TrieWalk, which explores every vocabulary   *)
(* within a bound and every consistent recogniser, (b) by Trace_TrieWalk,  *)
(* which checks the calls the real TokTrie makes on a logging recogniser,  *)
(* (c) to run the internal pass over the prefixes of a start string.       *)
(***************************************************************************)
EXTENDS Naturals, Integers, Sequences, FiniteSets, TLC

NoTok == -1

(* ------------------------------------------------------------------ *)
(* order of insertion: non-empty words sorted by bytes, ties by id     *)
(* ------------------------------------------------------------------ *)
RECURSIVE LexLess(_, _)
LexLess(a, b) ==
    IF a = <<>> THEN b # <<>>
    ELSE IF b = <<>> THEN FALSE
    ELSE IF Head(a) # Head(b) THEN Head(a) < Head(b)
    ELSE LexLess(Tail(a), Tail(b))

Before(vocab, i, j) == LexLess(vocab[i + 1], vocab[j + 1]) \/ (vocab[i + 1] = vocab[j + 1] /\ i < j)

RECURSIVE SortIds(_, _)
SortIds(vocab, ids) ==
    IF ids = {} THEN <<>>
    ELSE LET m == CHOOSE i \in ids : \A j \in ids \ {i} : Before(vocab, i, j)
         IN  <<m>> \o SortIds(vocab, ids \ {m})

InsertOrder(vocab) == SortIds(vocab, {i \in 0..(Len(vocab) - 1) : vocab[i + 1] # <<>>})

(* ------------------------------------------------------------------ *)
(* TrieBuilder: nodes [byte, tok, kids]; node 1 is the root            *)
(* ------------------------------------------------------------------ *)
EmptyTree == << [byte |-> 0, tok |-> NoTok, kids |-> <<>>] >>

(* the child the builder follows for this byte: the first one with the byte, except that at the last byte a child
   that already carries a token is passed over (a duplicate gets a node of its own) *)
FindKid(tree, cur, byte, isLast) ==
    LET ks == tree[cur].kids
        ok == {i \in DOMAIN ks : tree[ks[i]].byte = byte /\ ~(isLast /\ tree[ks[i]].tok # NoTok)}
    IN  IF ok = {} THEN 0 ELSE ks[CHOOSE i \in ok : \A j \in ok : i <= j]

RECURSIVE InsertAt(_, _, _, _, _)
InsertAt(tree, cur, word, i, id) ==
    IF i > Len(word) THEN [tree EXCEPT ![cur].tok = id]
    ELSE LET k == FindKid(tree, cur, word[i], i = Len(word)) IN
         IF k # 0 THEN InsertAt(tree, k, word, i + 1, id)
         ELSE LET new == Len(tree) + 1
                  t2 == Append([tree EXCEPT ![cur].kids = Append(@, new)], [byte |-> word[i], tok |-> NoTok, kids |-> <<>>])
              IN  InsertAt(t2, new, word, i + 1, id)

RECURSIVE InsertAll(_, _, _)
InsertAll(tree, vocab, order) ==
    IF order = <<>> THEN tree
    ELSE InsertAll(InsertAt(tree, 1, vocab[Head(order) + 1], 1, Head(order)), vocab, Tail(order))

Build(vocab) == InsertAll(EmptyTree, vocab, InsertOrder(vocab))

(* ------------------------------------------------------------------ *)
(* serialize_node: [byte, tok, size, par]                               *)
(* ------------------------------------------------------------------ *)
RECURSIVE Ser(_, _, _), SerKids(_, _, _, _)
SerKids(tree, ks, i, par) ==
    IF i > Len(ks) THEN <<>>
    ELSE Ser(tree, ks[i], IF i = Len(ks) THEN par + 1 ELSE 1) \o SerKids(tree, ks, i + 1, par)
Ser(tree, n, par) ==
    LET sub == SerKids(tree, tree[n].kids, 1, par) IN
    << [byte |-> tree[n].byte, tok |-> tree[n].tok, size |-> 1 + Len(sub), par |-> IF par = 0 THEN 1 ELSE par] >> \o sub

Layout(vocab) == Ser(Build(vocab), 1, 0)

(* ------------------------------------------------------------------ *)
(* reading the array back                                              *)
(* ------------------------------------------------------------------ *)
Ancestors(nodes, p) == {q \in 2..(p - 1) : q + nodes[q].size > p}          \* proper ancestors below the root
RECURSIVE PathSeq(_, _, _)
PathSeq(nodes, qs, acc) ==
    IF qs = {} THEN acc
    ELSE LET m == CHOOSE q \in qs : \A r \in qs : q <= r IN PathSeq(nodes, qs \ {m}, Append(acc, nodes[m].byte))
PathTo(nodes, p) == PathSeq(nodes, Ancestors(nodes, p) \cup {p}, <<>>)      \* bytes spelled by node p (p >= 2)
ParentPath(nodes, p) == PathSeq(nodes, Ancestors(nodes, p), <<>>)
Depth(nodes, p) == Cardinality(Ancestors(nodes, p)) + 1

Kids(nodes, q) == {c \in (q + 1)..(q + nodes[q].size - 1) : Ancestors(nodes, c) \cup {1} = Ancestors(nodes, q) \cup {1, q}}
(* what the layout must satisfy, stated without reference to how it was built *)
LayoutOK(vocab, nodes) ==
    LET n == Len(vocab) IN
    /\ nodes[1].size = Len(nodes)
    /\ \A p \in DOMAIN nodes : nodes[p].size >= 1 /\ p + nodes[p].size <= Len(nodes) + 1
    (* subtrees nest *)
    /\ \A p \in DOMAIN nodes : \A q \in (p + 1)..(p + nodes[p].size - 1) : q + nodes[q].size <= p + nodes[p].size
    (* every non-empty token sits on exactly one node, which spells its bytes; nothing else carries a token *)
    /\ \A t \in 0..(n - 1) :
          IF vocab[t + 1] = <<>> THEN \A p \in DOMAIN nodes : nodes[p].tok # t
          ELSE /\ Cardinality({p \in 2..Len(nodes) : nodes[p].tok = t}) = 1
               /\ \A p \in 2..Len(nodes) : nodes[p].tok = t => PathTo(nodes, p) = vocab[t + 1]
    /\ \A p \in DOMAIN nodes : nodes[p].tok = NoTok \/ nodes[p].tok \in 0..(n - 1)
    /\ nodes[1].tok = NoTok
    (* leaves carry tokens (no dangling paths) *)
    /\ \A p \in 2..Len(nodes) : nodes[p].size = 1 => nodes[p].tok # NoTok
    (* siblings are in non-decreasing byte order; equal bytes only for duplicates (all but the first are leaves
       carrying a token, and the first carries one too) *)
    /\ \A p \in DOMAIN nodes : \A c, d \in Kids(nodes, p) :
          c < d => /\ nodes[c].byte <= nodes[d].byte
                   /\ (nodes[c].byte = nodes[d].byte => nodes[d].size = 1 /\ nodes[d].tok # NoTok /\ nodes[c].tok # NoTok)
    (* pop counts: one for the node itself, plus the parent's count when it is the last child *)
    /\ \A p \in 2..Len(nodes) :
          nodes[p].par = (IF p + nodes[p].size = Len(nodes) + 1 THEN Depth(nodes, p)
                          ELSE Depth(nodes, p) - Depth(nodes, p + nodes[p].size) + 1)

(* ------------------------------------------------------------------ *)
(* the walk                                                            *)
(* ------------------------------------------------------------------ *)
Fake(vocab) == Len(vocab)                        \* the slot one past the vocabulary used for token-less nodes

WalkStart(nodes, off) ==
    LET p0 == off + 1
        e0 == off + nodes[off].size
    IN  [p |-> p0, endp |-> e0, nextPop |-> 0, stack |-> <<>>, toks |-> {}, underflow |-> FALSE, found |-> FALSE,
         phase |-> IF p0 < e0 THEN "pop" ELSE "final"]

StepPop(s) ==
    IF s.nextPop > Len(s.stack)
    THEN [s EXCEPT !.underflow = TRUE, !.stack = <<>>, !.phase = "push"]
    ELSE [s EXCEPT !.stack = SubSeq(@, 1, Len(@) - s.nextPop), !.phase = "push"]

(* the byte try_push_byte is called with *)
PushByte(nodes, s) == nodes[s.p].byte

(* add_bias_inner *)
StepPush(vocab, nodes, s, ok) ==
    LET n == nodes[s.p] IN
    IF ok
    THEN LET p2 == s.p + 1 IN
         [s EXCEPT !.stack = Append(@, n.byte),
                   !.toks = @ \cup {IF n.tok = NoTok THEN Fake(vocab) ELSE n.tok},
                   !.nextPop = IF n.size = 1 THEN n.par ELSE 0,
                   !.p = p2,
                   !.phase = IF p2 < s.endp THEN "pop" ELSE "final"]
    ELSE LET p2 == s.p + n.size IN
         [s EXCEPT !.nextPop = n.par - 1, !.p = p2, !.phase = IF p2 < s.endp THEN "pop" ELSE "final"]

(* has_valid_extensions: same walk, stops at the first token reached, never pops at the end *)
StepPushHve(vocab, nodes, s, ok) ==
    LET n == nodes[s.p] IN
    IF ok /\ n.tok # NoTok THEN [s EXCEPT !.stack = Append(@, n.byte), !.found = TRUE, !.phase = "done"]
    ELSE LET s2 == StepPush(vocab, nodes, s, ok) IN
         [s2 EXCEPT !.toks = {}, !.phase = IF s2.phase = "final" THEN "done" ELSE s2.phase]

(* after the loop: the last pop (only when the walk started at the root) and the fake slot cleared *)
StepFinal(vocab, s, popAtEnd) ==
    LET s1 == IF popAtEnd THEN StepPop(s) ELSE s IN
    [s1 EXCEPT !.toks = @ \ {Fake(vocab)}, !.phase = "done"]

(* the node reached from the root by the bytes of start (child_at_bytes), 0 if none *)
RECURSIVE Descend(_, _, _)
Descend(nodes, q, w) ==
    IF w = <<>> THEN q
    ELSE LET ks == {c \in Kids(nodes, q) : nodes[c].byte = Head(w)} IN
         IF ks = {} THEN 0 ELSE Descend(nodes, CHOOSE c \in ks : \A d \in ks : c <= d, Tail(w))

IsPrefixOf(a, b) == Len(a) <= Len(b) /\ SubSeq(b, 1, Len(a)) = a

(* the internal pass of add_bias over the prefixes of `start` (FixedRecognizer): a whole walk from the root with a
   recogniser that accepts exactly the prefixes of start *)
RECURSIVE RunFixed(_, _, _, _)
RunFixed(vocab, nodes, s, start) ==
    CASE s.phase = "pop" -> RunFixed(vocab, nodes, StepPop(s), start)
      [] s.phase = "push" -> RunFixed(vocab, nodes,
                                      StepPush(vocab, nodes, s, IsPrefixOf(Append(s.stack, PushByte(nodes, s)), start)), start)
      [] s.phase = "final" -> StepFinal(vocab, s, TRUE)
      [] OTHER -> s

StartPass(vocab, nodes, start) ==
    IF start = <<>> THEN [toks |-> {}, underflow |-> FALSE, stack |-> <<>>]
    ELSE RunFixed(vocab, nodes, WalkStart(nodes, 1), start)

(* ------------------------------------------------------------------ *)
(* the naive meaning (what C16 states)                                 *)
(* ------------------------------------------------------------------ *)
NePrefixes(w) == {SubSeq(w, 1, k) : k \in 1..Len(w)}
(* tokens extending `start` all of whose steps after it the recogniser accepted; yes = set of accepted stacks *)
NaiveExt(vocab, start, yes) ==
    {t \in 0..(Len(vocab) - 1) :
        LET w == vocab[t + 1] IN
        /\ Len(w) > Len(start) /\ IsPrefixOf(start, w)
        /\ \A k \in (Len(start) + 1)..Len(w) : SubSeq(w, Len(start) + 1, k) \in yes}
(* tokens that are non-empty prefixes of `start` (start itself included) *)
NaivePre(vocab, start) == {t \in 0..(Len(vocab) - 1) : vocab[t + 1] # <<>> /\ IsPrefixOf(vocab[t + 1], start)}
=============================================================================
