----------------------------- MODULE JsonValue -----------------------------
(***************************************************************************)
(* RFC 8259 JSON over byte strings: a recursive-descent parser that is     *)
(* also the definition of well-formedness used by C06/C07.                 *)
(* Values are tagged tuples:                                               *)
(*   <<"null">>  <<"bool", TRUE/FALSE>>  <<"num", dec, exp>>                *)
(*   <<"str", <<code points>>>>  <<"arr", <<v,..>>>>                         *)
(*   <<"obj", << <<key code points, v>>, .. >>>>  (order and duplicates kept) *)
(* Numbers keep their digits (Numeric.tla decimals) plus a decimal         *)
(* exponent; strings are decoded to code points (UTF-8, escapes,           *)
(* surrogate pairs).  Parse(b) = [ok |-> BOOLEAN, v |-> value].             *)
(***************************************************************************)
EXTENDS Numeric

IsWs(c) == c \in {32, 9, 10, 13}
IsDigit(c) == c >= 48 /\ c <= 57
HexVal(c) == IF c >= 48 /\ c <= 57 THEN c - 48
             ELSE IF c >= 97 /\ c <= 102 THEN c - 87
             ELSE IF c >= 65 /\ c <= 70 THEN c - 55 ELSE -1

Fail == [ok |-> FALSE, v |-> <<"null">>, p |-> 0]
Okay(v, p) == [ok |-> TRUE, v |-> v, p |-> p]

At(b, p) == IF p <= Len(b) THEN b[p] ELSE -1

RECURSIVE SkipWs(_, _)
SkipWs(b, p) == IF p <= Len(b) /\ IsWs(b[p]) THEN SkipWs(b, p + 1) ELSE p

RECURSIVE Digits(_, _, _)
(* longest run of digits from p: returns [ds, p] *)
Digits(b, p, acc) == IF IsDigit(At(b, p)) THEN Digits(b, p + 1, Append(acc, b[p] - 48)) ELSE [ds |-> acc, p |-> p]

DigitsToNat(ds) == DigitsVal(ds, 0)

ParseNumber(b, p0) ==
    LET neg == At(b, p0) = 45
        p1 == IF neg THEN p0 + 1 ELSE p0
        ip == Digits(b, p1, <<>>)
    IN  IF ip.ds = <<>> \/ (Len(ip.ds) > 1 /\ ip.ds[1] = 0) THEN Fail
        ELSE LET hasf == At(b, ip.p) = 46
                 fp == IF hasf THEN Digits(b, ip.p + 1, <<>>) ELSE [ds |-> <<>>, p |-> ip.p]
             IN  IF hasf /\ fp.ds = <<>> THEN Fail
                 ELSE LET hase == At(b, fp.p) \in {101, 69}
                          sgnp == IF hase /\ At(b, fp.p + 1) \in {43, 45} THEN fp.p + 2 ELSE fp.p + 1
                          eneg == hase /\ At(b, fp.p + 1) = 45
                          ep == IF hase THEN Digits(b, sgnp, <<>>) ELSE [ds |-> <<>>, p |-> fp.p]
                      IN  IF hase /\ ep.ds = <<>> THEN Fail
                          ELSE (* exponents are clamped to +-400: beyond any bound the generators use *)
                               LET ev == IF Len(StripLeading(ep.ds)) > 3 THEN 400
                                         ELSE LET x == DigitsToNat(ep.ds) IN IF x > 400 THEN 400 ELSE x
                               IN
                               Okay(<<"num", [neg |-> IF neg THEN 1 ELSE 0, i |-> ip.ds, f |-> fp.ds],
                                      IF hase THEN (IF eneg THEN 0 - ev ELSE ev) ELSE 0>>,
                                    ep.p)

(* one UTF-8 encoded scalar value at p: [ok, cp, p] *)
Utf8At(b, p) ==
    LET c == At(b, p)
        c2 == At(b, p + 1)
        c3 == At(b, p + 2)
        c4 == At(b, p + 3)
        cont(x) == x >= 128 /\ x <= 191
    IN  IF c >= 0 /\ c < 128 THEN [ok |-> TRUE, cp |-> c, p |-> p + 1]
        ELSE IF c >= 194 /\ c <= 223 /\ cont(c2) THEN [ok |-> TRUE, cp |-> (c - 192) * 64 + (c2 - 128), p |-> p + 2]
        ELSE IF c >= 224 /\ c <= 239 /\ cont(c2) /\ cont(c3)
                /\ (c = 224 => c2 >= 160) /\ (c = 237 => c2 <= 159)
             THEN [ok |-> TRUE, cp |-> (c - 224) * 4096 + (c2 - 128) * 64 + (c3 - 128), p |-> p + 3]
        ELSE IF c >= 240 /\ c <= 244 /\ cont(c2) /\ cont(c3) /\ cont(c4)
                /\ (c = 240 => c2 >= 144) /\ (c = 244 => c2 <= 143)
             THEN [ok |-> TRUE, cp |-> (c - 240) * 262144 + (c2 - 128) * 4096 + (c3 - 128) * 64 + (c4 - 128), p |-> p + 4]
        ELSE [ok |-> FALSE, cp |-> 0, p |-> p]

Hex4(b, p) ==
    LET h == [k \in 0..3 |-> HexVal(At(b, p + k))] IN
    IF \E k \in 0..3 : h[k] < 0 THEN -1 ELSE h[0] * 4096 + h[1] * 256 + h[2] * 16 + h[3]

RECURSIVE StrBody(_, _, _)
(* p just after the opening quote *)
StrBody(b, p, acc) ==
    LET c == At(b, p) IN
    IF c = -1 THEN Fail
    ELSE IF c = 34 THEN Okay(<<"str", acc>>, p + 1)
    ELSE IF c < 32 THEN Fail
    ELSE IF c = 92 THEN
        LET e == At(b, p + 1) IN
        IF e = 34 THEN StrBody(b, p + 2, Append(acc, 34))
        ELSE IF e = 92 THEN StrBody(b, p + 2, Append(acc, 92))
        ELSE IF e = 47 THEN StrBody(b, p + 2, Append(acc, 47))
        ELSE IF e = 98 THEN StrBody(b, p + 2, Append(acc, 8))
        ELSE IF e = 102 THEN StrBody(b, p + 2, Append(acc, 12))
        ELSE IF e = 110 THEN StrBody(b, p + 2, Append(acc, 10))
        ELSE IF e = 114 THEN StrBody(b, p + 2, Append(acc, 13))
        ELSE IF e = 116 THEN StrBody(b, p + 2, Append(acc, 9))
        ELSE IF e = 117 THEN
            LET h == Hex4(b, p + 2) IN
            IF h < 0 THEN Fail
            ELSE IF h >= 55296 /\ h <= 56319 THEN
                (* high surrogate: must be followed by \u low surrogate *)
                LET l2 == IF At(b, p + 6) = 92 /\ At(b, p + 7) = 117 THEN Hex4(b, p + 8) ELSE -1 IN
                IF l2 >= 56320 /\ l2 <= 57343
                THEN StrBody(b, p + 12, Append(acc, 65536 + (h - 55296) * 1024 + (l2 - 56320)))
                ELSE Fail    \* lone surrogates are not Unicode strings
            ELSE IF h >= 56320 /\ h <= 57343 THEN Fail
            ELSE StrBody(b, p + 6, Append(acc, h))
        ELSE Fail
    ELSE LET u == Utf8At(b, p) IN IF u.ok THEN StrBody(b, u.p, Append(acc, u.cp)) ELSE Fail

(* does the string starting after the quote at p spell a character with an escape it does not  *)
(* need (a \u escape of a printable character, or \/)?  Used only for diagnostics.            *)
RECURSIVE NeedlessEscape(_, _)
NeedlessEscape(b, p) ==
    LET c == At(b, p) IN
    IF c = -1 \/ c = 34 THEN FALSE
    ELSE IF c = 92 THEN
        IF At(b, p + 1) = 47 THEN TRUE
        ELSE IF At(b, p + 1) = 117 THEN
            LET h == Hex4(b, p + 2) IN
            IF h >= 32 /\ h # 34 /\ h # 92 /\ h # 127 THEN TRUE ELSE NeedlessEscape(b, p + 6)
        ELSE NeedlessEscape(b, p + 2)
    ELSE NeedlessEscape(b, p + 1)

KeyMark == 1114112   \* not a code point: appended to a key to make it distinct from every real key

Lit(b, p, w) == p + Len(w) - 1 <= Len(b) /\ SubSeq(b, p, p + Len(w) - 1) = w

RECURSIVE Value(_, _, _, _), Elems(_, _, _, _, _), Members(_, _, _, _, _)

(* d: remaining nesting depth; mk: diagnostic mode in which keys spelled with needless escapes  *)
(* are kept distinct from their plain spelling                                               *)
Value(b, p0, d, mk) ==
    LET p == SkipWs(b, p0)
        c == At(b, p)
    IN  IF d = 0 THEN Fail
        ELSE IF c = 110 THEN (IF Lit(b, p, <<110, 117, 108, 108>>) THEN Okay(<<"null">>, p + 4) ELSE Fail)
        ELSE IF c = 116 THEN (IF Lit(b, p, <<116, 114, 117, 101>>) THEN Okay(<<"bool", TRUE>>, p + 4) ELSE Fail)
        ELSE IF c = 102 THEN (IF Lit(b, p, <<102, 97, 108, 115, 101>>) THEN Okay(<<"bool", FALSE>>, p + 5) ELSE Fail)
        ELSE IF c = 34 THEN StrBody(b, p + 1, <<>>)
        ELSE IF c = 45 \/ IsDigit(c) THEN ParseNumber(b, p)
        ELSE IF c = 91 THEN
            LET q == SkipWs(b, p + 1) IN
            IF At(b, q) = 93 THEN Okay(<<"arr", <<>>>>, q + 1) ELSE Elems(b, q, d - 1, <<>>, mk)
        ELSE IF c = 123 THEN
            LET q == SkipWs(b, p + 1) IN
            IF At(b, q) = 125 THEN Okay(<<"obj", <<>>>>, q + 1) ELSE Members(b, q, d - 1, <<>>, mk)
        ELSE Fail

Elems(b, p, d, acc, mk) ==
    LET r == Value(b, p, d, mk) IN
    IF ~r.ok THEN Fail
    ELSE LET q == SkipWs(b, r.p) IN
         IF At(b, q) = 44 THEN Elems(b, q + 1, d, Append(acc, r.v), mk)
         ELSE IF At(b, q) = 93 THEN Okay(<<"arr", Append(acc, r.v)>>, q + 1)
         ELSE Fail

Members(b, p0, d, acc, mk) ==
    LET p == SkipWs(b, p0) IN
    IF At(b, p) # 34 THEN Fail
    ELSE LET k == StrBody(b, p + 1, <<>>) IN
         IF ~k.ok THEN Fail
         ELSE LET q == SkipWs(b, k.p) IN
              IF At(b, q) # 58 THEN Fail
              ELSE LET r == Value(b, q + 1, d, mk) IN
                   IF ~r.ok THEN Fail
                   ELSE LET q2 == SkipWs(b, r.p)
                            key == IF mk /\ NeedlessEscape(b, p + 1) THEN Append(k.v[2], KeyMark) ELSE k.v[2]
                            acc2 == Append(acc, <<key, r.v>>)
                        IN  IF At(b, q2) = 44 THEN Members(b, q2 + 1, d, acc2, mk)
                            ELSE IF At(b, q2) = 125 THEN Okay(<<"obj", acc2>>, q2 + 1)
                            ELSE Fail

MaxDepth == 64

ParseMode(b, mk) ==
    LET r == Value(b, 1, MaxDepth, mk) IN
    IF r.ok /\ SkipWs(b, r.p) = Len(b) + 1 THEN [ok |-> TRUE, v |-> r.v] ELSE [ok |-> FALSE, v |-> <<"null">>]
Parse(b) == ParseMode(b, FALSE)

(* no whitespace outside strings (compact serialisation) *)
RECURSIVE CompactFrom(_, _, _)
CompactFrom(b, p, instr) ==
    IF p > Len(b) THEN TRUE
    ELSE IF instr THEN
        IF b[p] = 92 THEN CompactFrom(b, p + 2, TRUE)
        ELSE IF b[p] = 34 THEN CompactFrom(b, p + 1, FALSE)
        ELSE CompactFrom(b, p + 1, TRUE)
    ELSE IF IsWs(b[p]) THEN FALSE
    ELSE CompactFrom(b, p + 1, b[p] = 34)
IsCompact(b) == CompactFrom(b, 1, FALSE)

(* ---- value helpers ----------------------------------------------------- *)
TagOf(v) == v[1]

(* decimal value of a number with its exponent applied (|exp| small) *)
RECURSIVE Zeros(_)
Zeros(n) == IF n = 0 THEN <<>> ELSE <<0>> \o Zeros(n - 1)
Shifted(num) ==
    LET d == num[2]
        e == num[3]
    IN  IF e = 0 THEN d
        ELSE IF e > 0 THEN
            LET f == d.f \o Zeros(IF e > Len(d.f) THEN e - Len(d.f) ELSE 0) IN
            [neg |-> d.neg, i |-> StripLeading(d.i \o SubSeq(f, 1, e)), f |-> SubSeq(f, e + 1, Len(f))]
        ELSE LET k == 0 - e
                 i == Zeros(IF k >= Len(d.i) THEN k - Len(d.i) + 1 ELSE 0) \o d.i
             IN  [neg |-> d.neg, i |-> SubSeq(i, 1, Len(i) - k), f |-> SubSeq(i, Len(i) - k + 1, Len(i)) \o d.f]

NumEq(a, b) == Cmp(Shifted(a), Shifted(b)) = 0

RECURSIVE JsonEq(_, _)
JsonEq(a, b) ==
    IF TagOf(a) # TagOf(b) THEN FALSE
    ELSE CASE TagOf(a) = "null" -> TRUE
           [] TagOf(a) = "bool" -> a[2] = b[2]
           [] TagOf(a) = "num" -> NumEq(a, b)
           [] TagOf(a) = "str" -> a[2] = b[2]
           [] TagOf(a) = "arr" -> Len(a[2]) = Len(b[2]) /\ \A i \in DOMAIN a[2] : JsonEq(a[2][i], b[2][i])
           [] TagOf(a) = "obj" ->
                /\ Len(a[2]) = Len(b[2])
                /\ \A i \in DOMAIN a[2] : \E j \in DOMAIN b[2] : a[2][i][1] = b[2][j][1] /\ JsonEq(a[2][i][2], b[2][j][2])
                /\ \A j \in DOMAIN b[2] : \E i \in DOMAIN a[2] : a[2][i][1] = b[2][j][1]

(* member lookup in an object value: sequence of values under key k (all duplicates) *)
Get(o, k) == LET idx == {i \in DOMAIN o[2] : o[2][i][1] = k} IN
             IF idx = {} THEN <<>> ELSE <<o[2][CHOOSE i \in idx : \A j \in idx : i <= j][2]>>
Has(o, k) == \E i \in DOMAIN o[2] : o[2][i][1] = k
Keys(o) == [i \in DOMAIN o[2] |-> o[2][i][1]]
=============================================================================
