------------------------------ MODULE Trace_Lex ------------------------------
(* Trace validation against LexParse.tla: grammars over named terminals that overlap (keywords vs identifiers,   *)
(* a literal that is a prefix of another, classes that intersect).  Init carries lexemes (surface regex ASTs),   *)
(* the grammar over lexeme ids and the vocabulary; masks, accepting flags and commit verdicts are recomputed.    *)
EXTENDS EngineRel, LexParse, Json, IOUtils

Rec == ndJsonDeserialize(IOEnv.TRACE)

VARIABLES l, ini, gx, ch
vars == <<eng, F, A, l, ini, gx, ch>>

TInit == EInit /\ l = 1 /\ ini = 0 /\ gx = <<>> /\ ch = <<>>

StartEpisode ==
    /\ Rec[l].ev = "Init"
    /\ eng' = <<>> /\ F' = <<>> /\ A' = <<>>
    /\ ini' = l
    /\ LET P == Desugar(Rec[l].lex.rules)
           start == <<Rec[l].lex.start>>
           G == MkG(P)
           (* lexeme ids are 0-based in the grammar; L is indexed by id *)
           lz == IF "lazy" \in DOMAIN Rec[l].lex THEN {Rec[l].lex.lazy[i] : i \in DOMAIN Rec[l].lex.lazy} ELSE {}
           L == [i \in 0..(Len(Rec[l].lex.lexemes) - 1) |-> MkLexemeZ(Rec[l].lex.lexemes[i + 1], i \in lz)]
           (* `%ignore`: the id of the ignored lexeme (the last one of the list), or NoSkip *)
           skip == IF "skip" \in DOMAIN Rec[l].lex THEN Rec[l].lex.skip ELSE NoSkip
       IN  /\ gx' = [G |-> G, L |-> L, start |-> start, skip |-> skip, reduced |-> Reduced(P, start),
                     sane |-> \A i \in DOMAIN L : L[i].rx \in L[i].live /\ ~R!Nullable(L[i].rx)]
           /\ ch' = (<<>> :> StartLexS(L, Chart0(G, start), skip))

Voc(c) == Rec[ini].cfgs[c + 1]
TokBytes(c, t) == Voc(c).tok[t + 1]
IsSpecial(c, t) == LET b == TokBytes(c, t) IN b # <<>> /\ b[1] = 255

RECURSIVE HistBytes(_, _)
HistBytes(c, h) ==
    IF h = <<>> THEN <<>>
    ELSE (IF IsSpecial(c, Head(h)) THEN <<>> ELSE TokBytes(c, Head(h))) \o HistBytes(c, Tail(h))

Push(st, w) == StepBytesS(gx.G, gx.L, st, w, gx.skip)
StateOf(hb) ==
    IF hb \in DOMAIN ch THEN ch[hb]
    ELSE LET ks == {k \in 0..Len(hb) : SubSeq(hb, 1, k) \in DOMAIN ch}
             k == CHOOSE x \in ks : \A y \in ks : y <= x
         IN  Push(ch[SubSeq(hb, 1, k)], SubSeq(hb, k + 1, Len(hb)))

IsAcc(st) == LexAcceptingS(gx.G, gx.L, st, gx.start, gx.skip)
Allowed(c, st, t) ==
    IF t = Voc(c).eos THEN IsAcc(st)
    ELSE ~IsSpecial(c, t) /\ TokBytes(c, t) # <<>> /\ ~Push(st, TokBytes(c, t)).dead
Text(c) == {t \in 0..(Voc(c).n - 1) : ~IsSpecial(c, t) \/ t = Voc(c).eos}
ExactMask(c, st) == {t \in Text(c) : Allowed(c, st, t)}

(* forced bytes are genuinely forced: at each position the state is not accepting and exactly one byte keeps it alive *)
RECURSIVE Forced(_, _)
Forced(st, b) ==
    IF b = <<>> THEN TRUE
    ELSE /\ ~IsAcc(st)
         /\ {x \in 0..254 : ~StepByteS(gx.G, gx.L, st, x, gx.skip).dead} = {Head(b)}
         /\ Forced(Push(st, <<Head(b)>>), Tail(b))

Exact(r) ==
    IF r.ev \in {"Init", "New", "Clone"} \/ ~Has(r.e) \/ ~Ok(r.e) THEN TRUE
    ELSE
    LET s == eng[r.e]
        c == s.cfgi
        st == StateOf(HistBytes(c, s.hist))
        txt == Text(c)
    IN
    CASE r.ev \in {"Mask", "MaskOrEos"} /\ r.ok = 1 /\ ~Stopped(r.e) ->
            LET M == SeqToSet(r.set) IN
            IF s.canon = 1 /\ Cardinality(M) = 1 /\ ExactMask(c, st) # M
            THEN M \subseteq ExactMask(c, st)
            ELSE M \cap txt = ExactMask(c, st) /\ M \subseteq txt
      [] r.ev = "ValidateAll" /\ r.ok = 1 /\ ~Stopped(r.e) -> SeqToSet(r.set) \cap txt = ExactMask(c, st)
      [] r.ev = "ConsumeEach" -> \A t \in SeqToSet(r.tried) \cap txt : (t \in SeqToSet(r.okset)) = Allowed(c, st, t)
      [] r.ev = "Acc" /\ r.ok = 1 /\ ~Stopped(r.e) -> (r.v = 1) = IsAcc(st)
      [] r.ev = "Consume" /\ ~Stopped(r.e) /\ r.t < s.n /\ (r.t \in txt) /\ ~(r.ok = 0 /\ r.cls = "limit") -> (r.ok = 1) = Allowed(c, st, r.t)
      [] r.ev = "FFBytes" -> Forced(st, r.b)
      [] OTHER -> TRUE

Explain(r) ==
    IF ~Has(r.e) \/ ~Ok(r.e) THEN TRUE ELSE
    LET s == eng[r.e]
        st == StateOf(HistBytes(s.cfgi, s.hist))
    IN PrintT(<<"WHY", r.ev, "hist", s.hist, "bytes", HistBytes(s.cfgi, s.hist), "expected-mask", ExactMask(s.cfgi, st),
                "accepting", IsAcc(st), "possible", DOMAIN st.cur, "started", st.started, "dead", st.dead,
                "next-lexemes", NextToks(st.chart)>>)

Remember(r) ==
    IF r.ev \in {"Init", "New", "Clone"} \/ ~Has(r.e) THEN UNCHANGED ch
    ELSE LET hb == HistBytes(eng[r.e].cfgi, eng[r.e].hist) IN
         IF hb \in DOMAIN ch THEN UNCHANGED ch ELSE ch' = (hb :> StateOf(hb)) @@ ch

Step ==
    /\ Rec[l].ev # "Init" /\ ini > 0
    /\ IF ~gx.reduced \/ ~gx.sane
       THEN UNCHANGED <<eng, F, A, ch>>
       ELSE LET r == Rec[l]
                voc == IF r.ev = "New" THEN Rec[ini].cfgs[r.c + 1] ELSE <<>>
            IN /\ ENext(r, voc)
               /\ (IF Exact(r) THEN TRUE ELSE (IOEnv.EXPLAIN = "1" /\ Explain(r) /\ FALSE))
               /\ Remember(r)
    /\ UNCHANGED <<ini, gx>>

TNext == l <= Len(Rec) /\ l' = l + 1 /\ (StartEpisode \/ Step)
TSpec == TInit /\ [][TNext]_vars
Accepted ==
    LET d == TLCGet("stats").diameter IN
    IF d - 1 = Len(Rec) THEN TRUE ELSE PrintT(<<"REJECT", d>>) /\ FALSE
=============================================================================
