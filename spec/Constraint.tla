----------------------------- MODULE Constraint -----------------------------
(***************************************************************************)
(* The sampling-loop interface (Constraint) as a protocol machine (C18),   *)
(* related to a twin Matcher that is fed the same tokens:                  *)
(*   last \in {"noop","sample","splice","stop"}  result of the last call    *)
(*   dead                                       the parser failed for good *)
(* compute_mask: stop exactly when the twin reports a stop, otherwise the  *)
(* twin's mask; an error after a stop.  commit_token: needs a preceding    *)
(* mask and a token from it; returns the sampled token followed by the     *)
(* twin's fast-forward tokens (capability on); after a stop it returns the *)
(* stop result with no tokens.  Out-of-order or invalid calls return an    *)
(* error and leave the state usable or permanently failed - never a        *)
(* successful result that silently ignores the token.                      *)
(***************************************************************************)
EXTENDS Naturals, Integers, Sequences, FiniteSets

VARIABLES last, dead
cvars == <<last, dead>>

CInit == last = "noop" /\ dead = FALSE

SeqSet(s) == {s[i] : i \in DOMAIN s}

CMask(r, n) ==
    IF last = "stop" THEN r.res = "err" /\ UNCHANGED cvars
    ELSE IF dead THEN r.res = "err" /\ UNCHANGED cvars
    ELSE IF r.twin.err = 1 THEN r.res = "err" /\ dead' = TRUE /\ UNCHANGED last
    ELSE IF r.twin.stopped = 1 THEN r.res = "stop" /\ last' = "stop" /\ UNCHANGED dead
    ELSE \/ /\ r.res = "sample" /\ SeqSet(r.set) = SeqSet(r.twin.set)
            /\ \A t \in SeqSet(r.set) : t < n
            /\ last' = "sample" /\ UNCHANGED dead
         \/ (r.res = "err" /\ r.cls = "limit" /\ dead' = TRUE /\ UNCHANGED last)

CCommit(r, n, ff) ==
    IF last = "stop" THEN r.res = "ok" /\ r.stop = 1 /\ r.toks = <<>> /\ UNCHANGED cvars
    ELSE IF dead THEN r.res = "err" /\ UNCHANGED cvars
    ELSE IF last = "sample" THEN
        IF r.tok < 0 THEN r.res = "err" /\ UNCHANGED cvars                   \* a token is required
        ELSE IF r.tok >= n THEN r.res = "err" /\ dead' = TRUE /\ UNCHANGED last
        ELSE IF r.twin.ok = 1
             THEN /\ r.res = "ok" /\ r.stop = 0 /\ r.bt = 0
                  /\ r.toks = <<r.tok>> \o (IF ff THEN r.twin.fft ELSE <<>>)
                  /\ last' = "splice" /\ UNCHANGED dead
             ELSE r.res = "err" /\ dead' = TRUE /\ UNCHANGED last
    ELSE (* commit without a preceding mask: an error; the state stays usable or fails for good *)
         /\ r.res = "err"
         /\ \/ UNCHANGED cvars
            \/ (dead' = TRUE /\ UNCHANGED last)
=============================================================================
