-------------------------------- MODULE Ffi --------------------------------
(* The C API contract (C17): every C call returns what the Rust object in the same state      *)
(* returns, and masks written into caller buffers stay inside them.  Buffers are modelled as  *)
(* sets of bit positions plus a length in 32-bit words; canary words sit on both sides.       *)
EXTENDS Naturals, Integers, Sequences, FiniteSets

SeqSet(s) == {s[i] : i \in DOMAIN s}

(* llg_matcher_compute_mask_into: succeeds exactly when the buffer has the mask's size *)
MaskIntoOK(exactWords, lenWords, ret, before, after, mask) ==
    IF lenWords = exactWords
    THEN ret = 0 /\ after = {b \in mask : b < 32 * exactWords}
    ELSE ret = -1 /\ after = before      \* refused; nothing written

(* llg_par_compute_mask into a buffer of lenWords words; the engine's own mask has nwords words *)
ParMaskExpected(lenWords, nwords, mask, stop, eos) ==
    LET w == IF lenWords < nwords THEN lenWords ELSE nwords IN
    {b \in mask : b < 32 * w} \cup (IF stop /\ (eos \div 32) < lenWords THEN {eos} ELSE {})
=============================================================================
