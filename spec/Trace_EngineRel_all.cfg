SPECIFICATION TSpec
POSTCONDITION Accepted
CHECK_DEADLOCK FALSE
INVARIANT TypeOK
CONSTANT FactsOn = TRUE
