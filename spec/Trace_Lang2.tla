----------------------------- MODULE Trace_Lang2 -----------------------------
(* C15: the optimiser preserves the language over terminal ids and keeps the special symbols. *)
EXTENDS GrammarLang, TLC, Json, IOUtils

Rec == ndJsonDeserialize(IOEnv.TRACE)
VARIABLE l
N == 5

Opt(r) ==
    /\ r.ev = "Opt"
    /\ LangN(r.pre, N) = LangN(r.post, N)
    /\ Specials(r.pre) \subseteq Specials(r.post)

Explain(r) ==
    r.ev # "Opt" \/
    PrintT(<<"WHY", "only-pre", LangN(r.pre, N) \ LangN(r.post, N), "only-post", LangN(r.post, N) \ LangN(r.pre, N),
             "specials-lost", Specials(r.pre) \ Specials(r.post)>>)

Init == l = 1
Next == l <= Len(Rec) /\ l' = l + 1 /\
        (IF Rec[l].ev = "Init" \/ Opt(Rec[l]) THEN TRUE ELSE (IOEnv.EXPLAIN = "1" /\ Explain(Rec[l]) /\ FALSE))
TSpec == Init /\ [][Next]_l
Accepted ==
    LET d == TLCGet("stats").diameter IN
    IF d - 1 = Len(Rec) THEN TRUE ELSE PrintT(<<"REJECT", d>>) /\ FALSE
=============================================================================
