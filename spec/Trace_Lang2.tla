----------------------------- MODULE Trace_Lang2 -----------------------------
(* C15: the optimiser preserves the language over terminal ids and keeps the special symbols. *)
EXTENDS GrammarLang, TLC, Json, IOUtils

Rec == ndJsonDeserialize(IOEnv.TRACE)
VARIABLE l
(* length bound, chosen by the driver from the number of terminals (5 up to 8 terminals, 4 up to 14, else 3)
   so that the bounded languages stay well below TLC's set-size limit *)
Nof(r) == r.n

Opt(r) ==
    /\ r.ev = "Opt"
    /\ LangN(r.pre, Nof(r)) = LangN(r.post, Nof(r))
    /\ Specials(r.pre) \subseteq Specials(r.post)

Explain(r) ==
    r.ev # "Opt" \/
    PrintT(<<"WHY", "only-pre", LangN(r.pre, Nof(r)) \ LangN(r.post, Nof(r)), "only-post", LangN(r.post, Nof(r)) \ LangN(r.pre, Nof(r)),
             "specials-lost", Specials(r.pre) \ Specials(r.post)>>)

Init == l = 1
Next == l <= Len(Rec) /\ l' = l + 1 /\
        (IF Rec[l].ev = "Init" \/ Opt(Rec[l]) THEN TRUE ELSE (IOEnv.EXPLAIN = "1" /\ Explain(Rec[l]) /\ FALSE))
TSpec == Init /\ [][Next]_l
Accepted ==
    LET d == TLCGet("stats").diameter IN
    IF d - 1 = Len(Rec) THEN TRUE ELSE PrintT(<<"REJECT", d>>) /\ FALSE
=============================================================================
