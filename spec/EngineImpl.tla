------------------------------ MODULE EngineImpl ------------------------------
(***************************************************************************)
(* The engine as the IMPLEMENTATION arranges it (parser/src/earley/        *)
(* parser.rs ParserState, tokenparser.rs TokenParser), on top of the       *)
(* lexer / parser semantics of LexParse.tla:                               *)
(*                                                                         *)
(*  - ONE virtual stack `stack` (lexer_stack) with one entry per parser    *)
(*    byte, [row, cur, started] = (row_idx, lexer state, "the current      *)
(*    lexeme has bytes"), shared by the definitive path (commit, forced    *)
(*    bytes, rollback) and the speculative path (mask = walk over the      *)
(*    token trie, accepting, forced-byte test) which pops what it pushed;  *)
(*  - `rows` (Earley sets, each labelled with the lexeme set that created  *)
(*    it) live OUTSIDE the stack: num_rows = top.row; rows above it are    *)
(*    garbage that the speculative path may REUSE while their index is     *)
(*    below `vend` (rows_valid_end) and the label is the lexeme set being  *)
(*    scanned (advance_parser: "re-use pushed row");                       *)
(*  - parser bytes = token bytes (first `nb`, byte_to_token_idx) followed  *)
(*    by FORCED bytes pushed definitively by force_bytes() and not yet     *)
(*    covered by a token; `lastForce` (last_force_bytes_len) short-cuts    *)
(*    force_bytes();                                                       *)
(*  - `cache` (bias_cache) keyed by (lexer state, row index, pending);     *)
(*  - rollback truncates bytes / stack, resets vend, lastForce, topEos     *)
(*    and clears the cache.                                                *)
(*                                                                         *)
(* Every public operation is one atomic step function  s |-> [s, res].     *)
(* MC_EngineImpl checks that every result is the one the REFERENCE engine  *)
(* (a function of the committed tokens only: RefMask, RefAcc, RefForced)   *)
(* gives, i.e. that stack sharing, row reuse, forced bytes and the cache   *)
(* are invisible.  The switches E.sw re-create design errors the model     *)
(* must reject (negative configurations): the cache kept across rollback   *)
(* (the repaired defect 8b4d5e4), a key without the row index, vend moved  *)
(* by max(), lastForce kept across rollback, the remembered fast-forward   *)
(* tokens kept across rollback (the seeded change C12-c).                  *)
(*                                                                         *)
(* E = [G, L, skip, start, tok, eos, order, alpha, sw, canon, maxlen];     *)
(* tok[t + 1] = bytes of token t; order = the text tokens in trie          *)
(* (lexicographic) order; canon = the tokenizer is canonical (greedy       *)
(* longest match, as the harness environments are): compute_mask() then    *)
(* forces bytes, turns them into fast-forward tokens (ff_tokens: greedy     *)
(* tokenisation of last token + forced bytes, chop_tokens = token healing)  *)
(* and narrows the mask to the first of them; maxlen = max_token_len().     *)
(***************************************************************************)
EXTENDS LexParse

LastOf(q) == q[Len(q)]
MaxOf(a, b) == IF a >= b THEN a ELSE b
IsPrefixOf(p, w) == Len(p) <= Len(w) /\ SubSeq(w, 1, Len(p)) = p
RECURSIVE CommonLen(_, _)
CommonLen(a, b) == IF a = <<>> \/ b = <<>> \/ Head(a) # Head(b) THEN 0 ELSE 1 + CommonLen(Tail(a), Tail(b))

ItemsOf(rows, n) == [i \in 1..n |-> rows[i].items]
StartCur(E, rows, n) == StartLexS(E.L, ItemsOf(rows, n), E.skip).cur

(* ---- Earley rows ------------------------------------------------------- *)
(* the lexeme set S ended in row n: reuse the row above (speculative only) or scan; just_push_row moves vend *)
PushRow(E, rows, vend, n, S, def) ==
    IF ~def /\ n < vend /\ n + 1 <= Len(rows) /\ rows[n + 1].lab = S
    THEN [ok |-> TRUE, rows |-> rows, vend |-> vend]
    ELSE LET chart == ItemsOf(rows, n)
             items == IF E.skip # NoSkip /\ E.skip \in S THEN chart[n] ELSE LastOf(Scan(E.G, chart, S))
             row == [items |-> items, lab |-> S]
         IN  IF items = {} THEN [ok |-> FALSE, rows |-> rows, vend |-> vend]
             ELSE [ok |-> TRUE,
                   rows |-> IF n + 1 <= Len(rows) THEN [rows EXCEPT ![n + 1] = row] ELSE Append(rows, row),
                   vend |-> IF E.sw.vendMax THEN MaxOf(vend, n + 1) ELSE n + 1]

(* ---- one byte on the virtual stack (try_push_byte / try_push_byte_definitive) ---- *)
(* w = [stack, rows, vend]; exactly one stack entry per byte, also when the byte ends one lexeme and is a whole  *)
(* single-byte lexeme itself (two rows pushed, advance_parser's "single byte lexeme" case)                       *)
PushByteW(E, w, b, def) ==
    LET top == LastOf(w.stack)
        n == top.row
        c2 == Derive(E.L, top.cur, b)
        Fail(rows, vend) == [ok |-> FALSE, stack |-> w.stack, rows |-> rows, vend |-> vend]
        Ok(entry, rows, vend) == [ok |-> TRUE, stack |-> Append(w.stack, entry), rows |-> rows, vend |-> vend]
    IN
    IF DOMAIN c2 # {}
    THEN IF EndsNow(E.L, c2) # {}
         THEN LET pr == PushRow(E, w.rows, w.vend, n, EndsNow(E.L, c2), def) IN
              IF ~pr.ok THEN Fail(pr.rows, pr.vend)
              ELSE Ok([row |-> n + 1, cur |-> StartCur(E, pr.rows, n + 1), started |-> FALSE], pr.rows, pr.vend)
         ELSE Ok([row |-> n, cur |-> c2, started |-> TRUE], w.rows, w.vend)
    ELSE LET acc == IF top.started THEN Matching(top.cur) ELSE {} IN
         IF acc = {} THEN Fail(w.rows, w.vend)
         ELSE LET pr == PushRow(E, w.rows, w.vend, n, acc, def) IN
              IF ~pr.ok THEN Fail(pr.rows, pr.vend)
              ELSE LET c3 == Derive(E.L, StartCur(E, pr.rows, n + 1), b) IN
                   IF DOMAIN c3 = {} THEN Fail(pr.rows, pr.vend)
                   ELSE IF EndsNow(E.L, c3) # {}
                        THEN LET pr2 == PushRow(E, pr.rows, pr.vend, n + 1, EndsNow(E.L, c3), def) IN
                             IF ~pr2.ok THEN Fail(pr2.rows, pr2.vend)
                             ELSE Ok([row |-> n + 2, cur |-> StartCur(E, pr2.rows, n + 2), started |-> FALSE],
                                     pr2.rows, pr2.vend)
                        ELSE Ok([row |-> n + 1, cur |-> c3, started |-> TRUE], pr.rows, pr.vend)

(* push bytes until one fails; k = number pushed *)
RECURSIVE PushSeqW(_, _, _, _, _)
PushSeqW(E, w, bs, def, k) ==
    IF bs = <<>> THEN [w |-> w, k |-> k, ok |-> TRUE]
    ELSE LET r == PushByteW(E, w, Head(bs), def) IN
         IF ~r.ok THEN [w |-> [stack |-> w.stack, rows |-> r.rows, vend |-> r.vend], k |-> k, ok |-> FALSE]
         ELSE PushSeqW(E, [stack |-> r.stack, rows |-> r.rows, vend |-> r.vend], Tail(bs), def, k + 1)

(* ---- initial state ------------------------------------------------------ *)
Init0(E) ==
    LET c0 == Chart0(E.G, E.start)
        rows == <<[items |-> c0[1], lab |-> {}]>>
    IN  [toks |-> <<>>, nb |-> 0, bytes |-> <<>>,
         stack |-> <<[row |-> 1, cur |-> StartCur(E, rows, 1), started |-> FALSE]>>,
         rows |-> rows, vend |-> 1, lastForce |-> -1, topEos |-> FALSE, cache |-> <<>>, accCache |-> "none", ffCache |-> <<>>,
         stop |-> "none", mode |-> "ok"]

StOf(s) ==
    LET top == LastOf(s.stack) IN
    [dead |-> FALSE, chart |-> ItemsOf(s.rows, top.row), cur |-> top.cur, started |-> top.started]

Pending(s) == SubSeq(s.bytes, s.nb + 1, Len(s.bytes))

(* ParserState::is_accepting(): speculative flush of the pending lexeme, then "a start rule is complete" *)
PAcc(E, s) == LexAcceptingS(E.G, E.L, StOf(s), E.start, E.skip)
(* TokenParser::is_accepting(): never while forced bytes are pending; remembered in is_accepting_cache until the *)
(* next commit / rollback (clear_caches) - NOT cleared by force_bytes()                                          *)
Acc(E, s) == IF s.accCache # "none" THEN s.accCache = "T" ELSE Pending(s) = <<>> /\ PAcc(E, s)
SetAcc(E, s) == [s EXCEPT !.accCache = IF Acc(E, s) THEN "T" ELSE "F"]
CanAdvance(E, s) == LET top == LastOf(s.stack) IN top.started \/ NextToks(ItemsOf(s.rows, top.row)) # {}

(* ---- the mask: walk over the trie with shared prefixes and row reuse ----- *)
(* ws = [stack, rows, vend, path, failed, mask]; base = stack length before the walk; pre = forced bytes pending  *)
RECURSIVE Walk(_, _, _, _, _)
Walk(E, base, pre, ws, i) ==
    IF i > Len(E.order) THEN ws
    ELSE
    LET t == E.order[i]
        tb == E.tok[t + 1]
    IN
    IF ~(Len(tb) > Len(pre) /\ IsPrefixOf(pre, tb)) THEN Walk(E, base, pre, ws, i + 1)
    ELSE
    LET rb == SubSeq(tb, Len(pre) + 1, Len(tb)) IN
    IF ws.failed # <<>> /\ IsPrefixOf(ws.failed, rb) THEN Walk(E, base, pre, ws, i + 1)   \* subtree skipped
    ELSE
    LET cp == CommonLen(rb, ws.path)
        w0 == [stack |-> SubSeq(ws.stack, 1, base + cp), rows |-> ws.rows, vend |-> ws.vend]     \* pop_bytes
        r == PushSeqW(E, w0, SubSeq(rb, cp + 1, Len(rb)), FALSE, 0)
        np == SubSeq(rb, 1, cp + r.k)
    IN  Walk(E, base, pre,
             [stack |-> r.w.stack, rows |-> r.w.rows, vend |-> r.w.vend, path |-> np,
              failed |-> IF r.ok THEN ws.failed ELSE SubSeq(rb, 1, cp + r.k + 1),
              mask |-> IF r.ok THEN ws.mask \cup {t} ELSE ws.mask], i + 1)

Key(E, s) ==
    LET top == LastOf(s.stack) IN
    [cur |-> top.cur, row |-> IF E.sw.keyRow THEN top.row ELSE 0, pend |-> IF E.sw.keyPending THEN top.started ELSE FALSE]

(* ---- forced bytes (needed by the canonical path of compute_mask) --------- *)
DPush(E, s, b) ==
    LET r == PushByteW(E, [stack |-> s.stack, rows |-> s.rows, vend |-> s.vend], b, TRUE) IN
    IF ~r.ok THEN [ok |-> FALSE, s |-> s]
    ELSE [ok |-> TRUE, s |-> [s EXCEPT !.stack = r.stack, !.rows = r.rows, !.vend = r.vend, !.bytes = Append(s.bytes, b)]]

(* force_bytes(): while not accepting and exactly one byte can be pushed, push it definitively *)
RECURSIVE ForceLoop(_, _, _)
ForceLoop(E, s, fuel) ==
    IF fuel = 0 \/ PAcc(E, s) THEN s
    ELSE LET w == [stack |-> s.stack, rows |-> s.rows, vend |-> LastOf(s.stack).row]
             bs == {b \in E.alpha : PushByteW(E, w, b, FALSE).ok}
         IN  IF Cardinality(bs) # 1 THEN s
             ELSE ForceLoop(E, DPush(E, s, CHOOSE b \in bs : TRUE).s, fuel - 1)

ForceNow(E, s, fuel) ==
    IF Len(s.bytes) = s.lastForce THEN s
    ELSE LET f == ForceLoop(E, s, fuel) IN [f EXCEPT !.lastForce = Len(f.bytes)]

(* ---- fast-forward tokens (tokenparser.rs ff_tokens, toktree.rs chop_tokens) ---- *)
TextToks(E) == {E.order[i] : i \in DOMAIN E.order}
RECURSIVE BytesOfToks(_, _)
BytesOfToks(E, ts) == IF ts = <<>> THEN <<>> ELSE E.tok[Head(ts) + 1] \o BytesOfToks(E, Tail(ts))

(* greedy_tokenize: at each position the longest token that is a prefix of the rest (a byte no token starts with is skipped) *)
RECURSIVE Greedy(_, _)
Greedy(E, bs) ==
    IF bs = <<>> THEN <<>>
    ELSE LET cands == {t \in TextToks(E) : IsPrefixOf(E.tok[t + 1], bs)} IN
         IF cands = {} THEN Greedy(E, Tail(bs))
         ELSE LET t == CHOOSE x \in cands : \A y \in cands : Len(E.tok[y + 1]) <= Len(E.tok[x + 1]) IN
              <<t>> \o Greedy(E, SubSeq(bs, Len(E.tok[t + 1]) + 1, Len(bs)))

(* has_valid_extensions(start): some token strictly extends `start` and the parser (after all forced bytes) takes the rest *)
HasValidExt(E, s, start) ==
    LET w == [stack |-> s.stack, rows |-> s.rows, vend |-> LastOf(s.stack).row] IN
    \E t \in TextToks(E) :
        LET tb == E.tok[t + 1] IN
        /\ Len(tb) > Len(start) /\ IsPrefixOf(start, tb)
        /\ PushSeqW(E, w, SubSeq(tb, Len(start) + 1, Len(tb)), FALSE, 0).ok

SeqSum(q) == LET RECURSIVE Go(_) Go(i) == IF i > Len(q) THEN 0 ELSE q[i] + Go(i + 1) IN Go(1)

(* chop_tokens: look at the bytes of the last (at most 4) tokens, at most max_token_len of them; the first suffix that some *)
(* longer token could continue is given back: whole tokens are dropped until they cover it.  Result <<tokens, bytes>>.      *)
Chop(E, s, ts) ==
    LET look == SubSeq(ts, IF Len(ts) > 4 THEN Len(ts) - 3 ELSE 1, Len(ts))
        sb0 == BytesOfToks(E, look)
        sb == SubSeq(sb0, IF Len(sb0) > E.maxlen THEN Len(sb0) - E.maxlen + 1 ELSE 1, Len(sb0))
        idxs == {i \in 1..Len(sb) : HasValidExt(E, s, SubSeq(sb, i, Len(sb)))}
    IN  IF idxs = {} THEN <<0, 0>>
        ELSE LET i == CHOOSE x \in idxs : \A y \in idxs : x <= y
                 chopBytes == Len(sb) - i + 1
                 lens(k) == SeqSum([j \in 1..k |-> Len(E.tok[ts[Len(ts) - j + 1] + 1])])
                 k == CHOOSE x \in 1..Len(ts) : lens(x) >= chopBytes /\ \A y \in 1..(x - 1) : lens(y) < chopBytes
             IN  <<k, lens(k)>>

(* ff_tokens(): returns [s (bytes forced), toks, prefix] *)
FFTokensOf(E, s, fuel) ==
    LET existing == IF s.toks = <<>> \/ LastOf(s.toks) = E.eos THEN <<>> ELSE <<LastOf(s.toks)>>
        eb == BytesOfToks(E, existing)
        s2 == IF E.canon THEN ForceNow(E, s, fuel) ELSE s
        fb == eb \o Pending(s2)
    IN
    IF Len(fb) > Len(eb) /\ E.canon
    THEN LET t1 == Greedy(E, fb)
             keep == Len(t1) >= Len(existing) /\ SubSeq(t1, 1, Len(existing)) = existing
             tokens == IF keep THEN t1 ELSE Greedy(E, Pending(s2))
             nfix == IF keep THEN Len(existing) ELSE 0
             ch == Chop(E, s2, SubSeq(tokens, nfix + 1, Len(tokens)))
             grm == SubSeq(tokens, nfix + 1, Len(tokens) - ch[1])
         IN  [s |-> s2, toks |-> grm, prefix |-> IF grm # <<>> THEN SubSeq(fb, Len(fb) - ch[2] + 1, Len(fb)) ELSE Pending(s2)]
    ELSE [s |-> s2, toks |-> <<>>, prefix |-> Pending(s2)]

(* compute_mask.  Canonical tokenizer: bytes are forced and turned into fast-forward tokens; if there are any, the mask is *)
(* narrowed to the first of them.  Otherwise (and for a non-canonical tokenizer) the pending forced bytes are the `start`  *)
(* prefix of the walk.                                                                                                     *)
Mask(E, s0, fuel) ==
    IF s0.mode = "err" \/ s0.stop # "none" THEN [s |-> [s0 EXCEPT !.mode = "err"], res |-> <<"err">>]
    ELSE
    LET ff == IF ~E.canon THEN [s |-> s0, toks |-> <<>>, prefix |-> Pending(s0)]
              ELSE IF s0.ffCache # <<>> THEN [s |-> s0, toks |-> s0.ffCache[1].toks, prefix |-> s0.ffCache[1].prefix]
              ELSE FFTokensOf(E, s0, fuel)
        s == [ff.s EXCEPT !.ffCache = <<>>]            \* ff_tokens_cache.take()
    IN
    IF ff.toks # <<>> THEN [s |-> s, res |-> <<"mask", {ff.toks[1]}>>]
    ELSE
    LET pre == Pending(s)
        key == Key(E, s)
        hit == pre = <<>> /\ s.cache # <<>> /\ s.cache[1].key = key
        eos == IF Acc(E, s) THEN {E.eos} ELSE {}
    IN
    IF hit THEN [s |-> SetAcc(E, s), res |-> <<"mask", s.cache[1].mask \cup eos>>]
    ELSE
    LET base == Len(s.stack)
        ws == Walk(E, base, pre, [stack |-> s.stack, rows |-> s.rows, vend |-> LastOf(s.stack).row, path |-> <<>>,
                                  failed |-> <<>>, mask |-> {}], 1)
        short == {t \in TextToks(E) : IsPrefixOf(E.tok[t + 1], pre)}
        m == ws.mask \cup short
        (* trie_finished: pop everything, vend back to num_rows; the rows above stay as garbage *)
        s2 == [SetAcc(E, s) EXCEPT !.rows = ws.rows, !.vend = LastOf(s.stack).row,
                        !.cache = IF pre = <<>> THEN <<[key |-> key, mask |-> m]>> ELSE s.cache]
    IN  IF m \cup eos = {} THEN [s |-> [s2 EXCEPT !.mode = "err"], res |-> <<"err">>]     \* NoExtensionBias
        ELSE [s |-> s2, res |-> <<"mask", m \cup eos>>]

(* compute_ff_tokens(): the answer is remembered (ff_tokens_cache) for the next compute_mask when forcing is possible *)
FFTokens(E, s, fuel) ==
    IF s.mode = "err" THEN [s |-> s, res |-> <<"err">>]
    ELSE IF s.stop # "none" THEN [s |-> s, res |-> <<"fft", <<>> >>]
    ELSE LET ff == FFTokensOf(E, s, fuel) IN
         [s |-> IF E.canon THEN [ff.s EXCEPT !.ffCache = <<[toks |-> ff.toks, prefix |-> ff.prefix]>>] ELSE ff.s,
          res |-> <<"fft", ff.toks>>]

(* ---- definitive path ---------------------------------------------------- *)
(* apply_token: bytes already forced are compared, the others are pushed *)
RECURSIVE ApplyBytes(_, _, _)
ApplyBytes(E, s, bs) ==
    IF bs = <<>> THEN [ok |-> TRUE, s |-> s]
    ELSE IF s.nb < Len(s.bytes)
         THEN IF s.bytes[s.nb + 1] # Head(bs) THEN [ok |-> FALSE, s |-> s]
              ELSE ApplyBytes(E, [s EXCEPT !.nb = s.nb + 1], Tail(bs))
         ELSE LET r == DPush(E, s, Head(bs)) IN
              IF ~r.ok THEN [ok |-> FALSE, s |-> s]
              ELSE ApplyBytes(E, [r.s EXCEPT !.nb = r.s.nb + 1], Tail(bs))

CheckStop(E, s) == IF Acc(E, s) /\ ~CanAdvance(E, s) THEN [SetAcc(E, s) EXCEPT !.stop = "noext"] ELSE SetAcc(E, s)

Commit(E, s, t) ==
    IF s.mode = "err" \/ s.stop # "none" THEN [s |-> [s EXCEPT !.mode = "err"], res |-> <<"err">>]
    ELSE IF t = E.eos
    THEN (* scan_eos: the pending lexeme is flushed DEFINITIVELY (one more stack entry, topEos) *)
         IF ~Acc(E, s) THEN [s |-> [s EXCEPT !.mode = "err"], res |-> <<"err">>]
         ELSE LET top == LastOf(s.stack)
                  s2 == IF ~top.started THEN s
                        ELSE LET pr == PushRow(E, s.rows, s.vend, top.row, Matching(top.cur), TRUE) IN
                             [s EXCEPT !.rows = pr.rows, !.vend = pr.vend, !.topEos = TRUE,
                                       !.stack = Append(s.stack, [row |-> top.row + 1,
                                                                  cur |-> StartCur(E, pr.rows, top.row + 1),
                                                                  started |-> FALSE])]
              IN  [s |-> [s2 EXCEPT !.toks = Append(s.toks, t), !.stop = "eos"], res |-> <<"ok">>]
    ELSE LET r == ApplyBytes(E, [s EXCEPT !.accCache = "none", !.ffCache = <<>>], E.tok[t + 1]) IN      \* clear_caches()
         IF ~r.ok \/ E.tok[t + 1] = <<>> \/ E.tok[t + 1][1] = 255
         THEN [s |-> [s EXCEPT !.mode = "err"], res |-> <<"err">>]
         ELSE [s |-> CheckStop(E, [r.s EXCEPT !.toks = Append(s.toks, t)]), res |-> <<"ok">>]

Force(E, s, fuel) ==
    IF s.mode = "err" THEN [s |-> s, res |-> <<"err">>]
    ELSE IF s.stop # "none" THEN [s |-> s, res |-> <<"ff", <<>> >>]
    ELSE LET s2 == ForceNow(E, s, fuel) IN [s |-> s2, res |-> <<"ff", Pending(s2)>>]

IsAccepting(E, s) ==
    IF s.mode = "err" THEN [s |-> s, res |-> <<"err">>] ELSE [s |-> SetAcc(E, s), res |-> <<"acc", Acc(E, s)>>]

Invalidate(E, s) == [s |-> [s EXCEPT !.cache = <<>>], res |-> <<"ok">>]

RECURSIVE DropLen(_, _)
DropLen(E, ts) == IF ts = <<>> THEN 0 ELSE (IF Head(ts) = E.eos THEN 0 ELSE Len(E.tok[Head(ts) + 1])) + DropLen(E, Tail(ts))

Rollback(E, s, k) ==
    IF s.mode = "err" THEN [s |-> s, res |-> <<"err">>]
    ELSE IF k = 0 THEN [s |-> s, res |-> <<"ok">>]
    ELSE IF k > Len(s.toks) THEN [s |-> [s EXCEPT !.mode = "err"], res |-> <<"err">>]
    ELSE LET keep == Len(s.toks) - k
             newLen == s.nb - DropLen(E, SubSeq(s.toks, keep + 1, Len(s.toks)))
             stack == SubSeq(s.stack, 1, newLen + 1)
         IN  [s |-> [s EXCEPT !.toks = SubSeq(s.toks, 1, keep), !.nb = newLen, !.bytes = SubSeq(s.bytes, 1, newLen),
                              !.stack = stack, !.vend = LastOf(stack).row, !.topEos = FALSE, !.stop = "none", !.accCache = "none",
                              !.ffCache = IF E.sw.clearFFOnRollback THEN <<>> ELSE s.ffCache,
                              !.lastForce = IF E.sw.resetLastForce THEN -1 ELSE s.lastForce,
                              !.cache = IF E.sw.clearOnRollback THEN <<>> ELSE s.cache],
              res |-> <<"ok">>]

(* ---- the reference engine: a function of the committed tokens only ------ *)
RECURSIVE TokBytesOf(_, _)
TokBytesOf(E, ts) ==
    IF ts = <<>> THEN <<>>
    ELSE (IF Head(ts) = E.eos THEN <<>> ELSE E.tok[Head(ts) + 1]) \o TokBytesOf(E, Tail(ts))

RefSt(E, ts) ==
    StepBytesS(E.G, E.L, StartLexS(E.L, Chart0(E.G, E.start), E.skip), TokBytesOf(E, ts), E.skip)
RefAcc(E, ts) == LexAcceptingS(E.G, E.L, RefSt(E, ts), E.start, E.skip)
RefAllowed(E, st, t) == ~StepBytesS(E.G, E.L, st, E.tok[t + 1], E.skip).dead
RefMask(E, ts) ==
    LET st == RefSt(E, ts) IN
    {t \in {E.order[i] : i \in DOMAIN E.order} : RefAllowed(E, st, t)} \cup (IF RefAcc(E, ts) THEN {E.eos} ELSE {})
RefNext(E, st) == {b \in E.alpha : ~StepByteS(E.G, E.L, st, b, E.skip).dead}
RECURSIVE RefForcedFrom(_, _, _)
RefForcedFrom(E, st, fuel) ==
    IF fuel = 0 \/ LexAcceptingS(E.G, E.L, st, E.start, E.skip) THEN <<>>
    ELSE LET nx == RefNext(E, st) IN
         IF Cardinality(nx) # 1 THEN <<>>
         ELSE LET b == CHOOSE x \in nx : TRUE IN <<b>> \o RefForcedFrom(E, StepByteS(E.G, E.L, st, b, E.skip), fuel - 1)
RefForced(E, ts, fuel) == RefForcedFrom(E, RefSt(E, ts), fuel)
RefStopped(E, ts) ==
    ts # <<>> /\ (LastOf(ts) = E.eos
                  \/ LET st == RefSt(E, ts) IN
                     RefAcc(E, ts) /\ ~st.started /\ NextToks(st.chart) = {})

(* ---- structural invariants of a definitive state ------------------------ *)
StackOK(s) ==
    /\ Len(s.stack) = Len(s.bytes) + 1 + (IF s.topEos THEN 1 ELSE 0)
    /\ s.nb <= Len(s.bytes)
    /\ \A i \in 1..(Len(s.stack) - 1) : s.stack[i].row <= s.stack[i + 1].row
    /\ LastOf(s.stack).row <= Len(s.rows)
    /\ s.vend = LastOf(s.stack).row

(* the rows in use form a consistent chart: each was scanned from the ones below it *)
RowsOK(E, s) ==
    \A n \in 1..(LastOf(s.stack).row - 1) :
        LET S == s.rows[n + 1].lab
            chart == ItemsOf(s.rows, n)
        IN  s.rows[n + 1].items = IF E.skip # NoSkip /\ E.skip \in S THEN chart[n] ELSE LastOf(Scan(E.G, chart, S))

(* the state the implementation is in is the state of the reference engine after the parser bytes *)
StateOK(E, s) ==
    s.mode = "ok" =>
        LET ref == StepBytesS(E.G, E.L, RefSt(E, s.toks), Pending(s), E.skip)
            mine == StOf(s)
        IN  IF s.topEos THEN TRUE
            ELSE ~ref.dead /\ ref.chart = mine.chart /\ ref.cur = mine.cur /\ ref.started = mine.started
=============================================================================
