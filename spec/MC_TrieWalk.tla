----------------------------- MODULE MC_TrieWalk -----------------------------
(***************************************************************************)
(* U1/U2 for TrieWalk: every vocabulary of at most MaxTok tokens of at most *)
(* MaxLen bytes over Alphabet (empty tokens, duplicates, tokens that are    *)
(* prefixes of others), every start string, both walks, and every           *)
(* consistent recogniser (answers chosen step by step, remembered in        *)
(* yes / no).  `calls` is the sequence of recogniser calls; finished        *)
(* behaviours are printed for replay into the real TokTrie.                 *)
(***************************************************************************)
EXTENDS TrieWalk, Json

CONSTANTS Alphabet, MaxLen, MaxTok, MaxStart, Emit

RECURSIVE Strings(_)
Strings(n) == IF n = 0 THEN {<<>>} ELSE LET S == Strings(n - 1) IN S \cup {Append(w, b) : w \in S, b \in Alphabet}
Words == Strings(MaxLen)
RECURSIVE Vocabs(_)
Vocabs(n) == IF n = 0 THEN {<<>>} ELSE LET V == Vocabs(n - 1) IN V \cup {Append(v, w) : v \in {x \in V : Len(x) = n - 1}, w \in Words}

VARIABLES vocab, nodes, start, mode, off, s, yes, no, calls
vars == <<vocab, nodes, start, mode, off, s, yes, no, calls>>

Idle == [p |-> 0, endp |-> 0, nextPop |-> 0, stack |-> <<>>, toks |-> {}, underflow |-> FALSE, found |-> FALSE, phase |-> "done"]

Init ==
    /\ vocab \in Vocabs(MaxTok) \ {<<>>}
    /\ nodes = Layout(vocab)
    /\ start \in Strings(MaxStart)
    /\ mode \in {"bias", "hve"}
    /\ off = Descend(nodes, 1, start)
    /\ s = IF off = 0 THEN Idle ELSE WalkStart(nodes, off)
    /\ yes = {} /\ no = {}
    /\ calls = <<>>

Pop ==
    /\ s.phase = "pop"
    /\ s' = StepPop(s)
    /\ calls' = Append(calls, <<0, s.nextPop, 0>>)
    /\ UNCHANGED <<vocab, nodes, start, mode, off, yes, no>>

Push ==
    /\ s.phase = "push"
    /\ LET key == Append(s.stack, PushByte(nodes, s)) IN
       \E ok \in BOOLEAN :
          /\ key \in yes => ok
          /\ key \in no => ~ok
          /\ yes' = IF ok THEN yes \cup {key} ELSE yes
          /\ no' = IF ok THEN no ELSE no \cup {key}
          /\ s' = IF mode = "bias" THEN StepPush(vocab, nodes, s, ok) ELSE StepPushHve(vocab, nodes, s, ok)
          /\ calls' = Append(calls, <<1, PushByte(nodes, s), IF ok THEN 1 ELSE 0>>)
    /\ UNCHANGED <<vocab, nodes, start, mode, off>>

Final ==
    /\ s.phase = "final"
    /\ s' = IF mode = "bias" THEN StepFinal(vocab, s, start = <<>>) ELSE [s EXCEPT !.phase = "done"]
    /\ calls' = IF mode = "bias" /\ start = <<>> THEN Append(calls, <<0, s.nextPop, 0>>) ELSE calls
    /\ UNCHANGED <<vocab, nodes, start, mode, off, yes, no>>

Next == Pop \/ Push \/ Final
Spec == Init /\ [][Next]_vars

(* ------------------------------ properties ------------------------------ *)
LayoutInv == LayoutOK(vocab, nodes)
NoUnderflow == ~s.underflow
Capacity == s.toks \subseteq 0..Len(vocab)                       \* the fake slot is the only id outside the vocabulary
(* when try_push_byte is called the recogniser holds exactly the bytes between the start node and the node's parent *)
StackIsPath ==
    s.phase = "push" => s.stack = SubSeq(ParentPath(nodes, s.p), Len(start) + 1, Len(ParentPath(nodes, s.p)))
(* the descent to the start node spells start *)
StartNode == off # 0 /\ off # 1 => PathTo(nodes, off) = start
StartNone == off = 0 <=> start # <<>> /\ ~\E t \in 0..(Len(vocab) - 1) : IsPrefixOf(start, vocab[t + 1]) /\ (vocab[t + 1] # <<>>)

Result ==
    s.phase = "done" =>
        IF mode = "bias"
        THEN LET pre == StartPass(vocab, nodes, start) IN
             /\ ~pre.underflow /\ pre.stack = <<>>
             /\ pre.toks = NaivePre(vocab, start)
             /\ s.toks = NaiveExt(vocab, start, yes)
             /\ s.toks \subseteq 0..(Len(vocab) - 1)
             /\ (start = <<>> => s.stack = <<>>)
        ELSE s.found = (NaiveExt(vocab, start, yes) # {})

(* one line per finished behaviour, for replay into the implementation *)
EmitReplay ==
    (Emit /\ s.phase = "done") =>
        PrintT(<<"REPLAY", ToJson([vocab |-> vocab, start |-> start, mode |-> mode, yes |-> yes, calls |-> calls,
                                   toks |-> s.toks, found |-> IF s.found THEN 1 ELSE 0,
                                   pre |-> StartPass(vocab, nodes, start).toks])>>)
=============================================================================
