--------------------------- MODULE RegexSurface ---------------------------
(***************************************************************************)
(* The surface regex syntax the generators emit (and llguidance is given   *)
(* as text), as JSON-shaped records, and its compilation to the byte-level *)
(* regexes of Regex.tla.  Code points are UTF-8 encoded; classes are sets  *)
(* of code points drawn from ASCII plus a few listed non-ASCII characters; *)
(* a negated class and '.' range over UTF-8 scalar values; `not` ranges    *)
(* over ALL byte strings (docs/syntax.md).                                  *)
(*   [k |-> "lit", s |-> <<cp..>>]      [k |-> "cls", neg |-> 0/1, cps |-> <<cp..>>]                   *)
(*   [k |-> "dot", s |-> 0/1]           [k |-> "cat"/"alt"/"and", a |-> <<..>>]                        *)
(*   [k |-> "not", a |-> r]             [k |-> "rep", a |-> r, m |-> m, n |-> n or -1]                  *)
(*   [k |-> "icase", a |-> r]           [k |-> "substr", chunks |-> << <<cp..>> .. >>]                  *)
(***************************************************************************)
EXTENDS Regex

Encode(cp) ==
    IF cp < 128 THEN <<cp>>
    ELSE IF cp < 2048 THEN <<192 + (cp \div 64), 128 + (cp % 64)>>
    ELSE IF cp < 65536 THEN <<224 + (cp \div 4096), 128 + ((cp \div 64) % 64), 128 + (cp % 64)>>
    ELSE <<240 + (cp \div 262144), 128 + ((cp \div 4096) % 64), 128 + ((cp \div 64) % 64), 128 + (cp % 64)>>

RECURSIVE EncodeAll(_)
EncodeAll(cps) == IF cps = <<>> THEN <<>> ELSE Encode(Head(cps)) \o EncodeAll(Tail(cps))

R(lo, hi) == <<"set", lo..hi>>
Cont == R(128, 191)

(* all well-formed UTF-8 encodings of one scalar value (RFC 3629) *)
Utf8Scalar ==
    Alt({R(0, 127),
         Cat(R(194, 223), Cont),
         Cat(R(224, 224), Cat(R(160, 191), Cont)),
         Cat(R(225, 236), Cat(Cont, Cont)),
         Cat(R(237, 237), Cat(R(128, 159), Cont)),
         Cat(R(238, 239), Cat(Cont, Cont)),
         Cat(R(240, 240), Cat(R(144, 191), Cat(Cont, Cont))),
         Cat(R(241, 243), Cat(Cont, Cat(Cont, Cont))),
         Cat(R(244, 244), Cat(R(128, 143), Cat(Cont, Cont)))})

SeqSet(s) == {s[i] : i \in DOMAIN s}

(* a set of code points as a byte-level regex *)
CpSet(S) ==
    Alt({Set({cp \in S : cp < 128})} \cup {LitBytes(Encode(cp)) : cp \in {c \in S : c >= 128}})

(* simple case folding orbits (Unicode): ASCII letters, plus KELVIN SIGN for k and LONG S for s *)
Orbit(cp) ==
    IF cp >= 97 /\ cp <= 122 THEN {cp, cp - 32} \cup (IF cp = 107 THEN {8490} ELSE IF cp = 115 THEN {383} ELSE {})
    ELSE IF cp >= 65 /\ cp <= 90 THEN {cp, cp + 32} \cup (IF cp = 75 THEN {8490} ELSE IF cp = 83 THEN {383} ELSE {})
    ELSE IF cp = 8490 THEN {8490, 75, 107}
    ELSE IF cp = 383 THEN {383, 83, 115}
    ELSE {cp}

Fold(S) == UNION {Orbit(cp) : cp \in S}

RECURSIVE Compile(_, _)
(* ic: case-insensitive context *)
Compile(x, ic) ==
    CASE x.k = "lit" ->
            CatSeq([i \in DOMAIN x.s |-> IF ic THEN CpSet(Orbit(x.s[i])) ELSE LitBytes(Encode(x.s[i]))])
      [] x.k = "cls" ->
            LET S == IF ic THEN Fold(SeqSet(x.cps)) ELSE SeqSet(x.cps) IN
            IF x.neg = 1 THEN And({Utf8Scalar, Not(CpSet(S))}) ELSE CpSet(S)
      [] x.k = "dot" -> IF x.s = 1 THEN Utf8Scalar ELSE And({Utf8Scalar, Not(Lit1(10))})
      [] x.k = "cat" -> CatSeq([i \in DOMAIN x.a |-> Compile(x.a[i], ic)])
      [] x.k = "alt" -> Alt({Compile(x.a[i], ic) : i \in DOMAIN x.a})
      [] x.k = "and" -> And({Compile(x.a[i], ic) : i \in DOMAIN x.a})
      [] x.k = "not" -> Not(Compile(x.a, ic))
      [] x.k = "rep" -> Rep(Compile(x.a, ic), x.m, IF x.n < 0 THEN Inf ELSE x.n)
      [] x.k = "icase" -> Compile(x.a, TRUE)
      [] x.k = "substr" ->
            LET c == x.chunks
                n == Len(c)
                RECURSIVE Join(_, _)
                Join(i, j) == IF i > j THEN <<>> ELSE EncodeAll(c[i]) \o Join(i + 1, j)
            IN  Alt({Eps} \cup {LitBytes(Join(i, j)) : i \in 1..n, j \in 1..n})

CompileTop(x) == Compile(x, FALSE)
=============================================================================
