---------------------------- MODULE Trace_Cfg ----------------------------
(* Trace validation in EXACT mode for Lark context-free grammars of the non-confusable        *)
(* fragment (C05; the CFG clauses of C01/C03/C13/C19).  Init carries the EBNF grammar and the *)
(* vocabulary; every recorded call must be a step of EngineRel AND agree with the grammar's   *)
(* language, computed here with Earley item sets pushed byte by byte (Cfg.tla).               *)
EXTENDS EngineRel, Cfg, Json, IOUtils

Rec == ndJsonDeserialize(IOEnv.TRACE)

VARIABLES l, ini, gx, ch

vars == <<eng, F, A, l, ini, gx, ch>>

TInit == EInit /\ l = 1 /\ ini = 0 /\ gx = <<>> /\ ch = <<>>

StartEpisode ==
    /\ Rec[l].ev = "Init"
    /\ eng' = <<>> /\ F' = <<>> /\ A' = <<>>
    /\ ini' = l
    /\ LET P == Desugar(Rec[l].cfg.rules)
           start == <<Rec[l].cfg.start>>
           G == MkG(P)
       IN  /\ gx' = [G |-> G, start |-> start, reduced |-> Reduced(P, start),
                     ign |-> IF "ign" \in DOMAIN Rec[l].cfg THEN SeqSet(Rec[l].cfg.ign) ELSE {}]
           /\ ch' = (<<>> :> Chart0(G, start))

Voc(c) == Rec[ini].cfgs[c + 1]
TokBytes(c, t) == Voc(c).tok[t + 1]
IsSpecial(c, t) == LET b == TokBytes(c, t) IN b # <<>> /\ b[1] = 255

RECURSIVE HistBytes(_, _)
HistBytes(c, h) ==
    IF h = <<>> THEN <<>>
    ELSE (IF IsSpecial(c, Head(h)) THEN <<>> ELSE TokBytes(c, Head(h))) \o HistBytes(c, Tail(h))

Push(chart, w) == IF gx.ign = {} THEN PushBytes(gx.G, chart, w) ELSE PushBytesI(gx.G, chart, w, gx.ign)
(* bytes that may come next: first bytes of the terminals the item set expects, and the ignorable bytes where allowed *)
Next1(chart) == NextBytes(chart) \cup IgnNow(chart, gx.ign)

(* chart for a byte string, from the longest cached prefix *)
ChartOf(hb) ==
    IF hb \in DOMAIN ch THEN ch[hb]
    ELSE LET ks == {k \in 0..Len(hb) : SubSeq(hb, 1, k) \in DOMAIN ch}
             k == CHOOSE x \in ks : \A y \in ks : y <= x
         IN  Push(ch[SubSeq(hb, 1, k)], SubSeq(hb, k + 1, Len(hb)))

IsAcc(chart) == ~Dead(chart) /\ AcceptingChart(chart, gx.start)

Allowed(c, chart, t) ==
    IF t = Voc(c).eos THEN IsAcc(chart)
    ELSE /\ ~IsSpecial(c, t)
         /\ TokBytes(c, t) # <<>>
         /\ ~Dead(Push(chart, TokBytes(c, t)))

Text(c) == {t \in 0..(Voc(c).n - 1) : ~IsSpecial(c, t) \/ t = Voc(c).eos}
(* same set as {t \in Text(c) : Allowed(c, chart, t)}; the first byte is tested against the set *)
(* of bytes that can come next before any item set is built                                    *)
ExactMask(c, chart) ==
    LET nb == Next1(chart)
        acc == IsAcc(chart)
    IN  {t \in Text(c) :
            IF t = Voc(c).eos THEN acc
            ELSE LET w == TokBytes(c, t) IN
                 /\ w # <<>> /\ w[1] \in nb
                 /\ (Len(w) = 1 \/ ~Dead(Push(chart, w)))}
CanExtend(chart) == NextBytes(chart) # {}

RECURSIVE ValidLen(_, _, _, _)
ValidLen(c, chart, seq, sc) ==
    IF seq = <<>> THEN 0
    ELSE LET t == Head(seq) IN
         IF t >= Voc(c).n \/ (IsSpecial(c, t) /\ t # Voc(c).eos) THEN 0
         ELSE IF ~Allowed(c, chart, t) THEN 0
         ELSE IF t = Voc(c).eos THEN 1
         ELSE LET c2 == Push(chart, TokBytes(c, t)) IN
              IF sc /\ IsAcc(c2) /\ ~CanExtend(c2) THEN 1
              ELSE 1 + ValidLen(c, c2, Tail(seq), sc)

RECURSIVE Forced(_, _)
Forced(chart, b) ==
    IF b = <<>> THEN TRUE
    ELSE /\ ~IsAcc(chart)
         /\ Next1(chart) = {Head(b)}
         /\ Forced(Push(chart, <<Head(b)>>), Tail(b))

Exact(r) ==
    IF r.ev \in {"Init", "New", "Clone"} \/ ~Has(r.e) \/ ~Ok(r.e) THEN TRUE
    ELSE
    LET s == eng[r.e]
        c == s.cfgi
        st == ChartOf(HistBytes(c, s.hist))
        txt == Text(c)
    IN
    CASE r.ev \in {"Mask", "MaskOrEos"} /\ r.ok = 1 /\ ~Stopped(r.e) ->
            LET M == SeqToSet(r.set) IN
            IF s.canon = 1 /\ Cardinality(M) = 1 /\ ExactMask(c, st) # M
            THEN /\ M \subseteq ExactMask(c, st)
                 /\ \A t \in M : Forced(st, TokBytes(c, t))
            ELSE /\ M \cap txt = ExactMask(c, st)
                 /\ M \subseteq txt     \* a text grammar never allows a special token or the bare marker (C19)
      [] r.ev \in {"Mask", "MaskOrEos"} /\ r.ok = 0 /\ ~Stopped(r.e) /\ r.cls = "empty" ->
            ExactMask(c, st) = {}
      [] r.ev = "ValidateAll" /\ r.ok = 1 /\ ~Stopped(r.e) ->
            SeqToSet(r.set) \cap txt = ExactMask(c, st)
      [] r.ev = "ConsumeEach" ->
            \A t \in SeqToSet(r.tried) \cap txt : (t \in SeqToSet(r.okset)) = Allowed(c, st, t)
      [] r.ev = "Acc" /\ r.ok = 1 -> (r.v = 1) = IsAcc(st)
      [] r.ev = "Consume" /\ ~Stopped(r.e) /\ r.t < s.n /\ (r.t \in txt) /\ ~(r.ok = 0 /\ r.cls = "limit") ->
            /\ (r.ok = 1) = Allowed(c, st, r.t)
            /\ r.ok = 1 /\ r.t # s.eos =>
                 LET st2 == Push(st, TokBytes(c, r.t)) IN
                 (r.st = "NoExtension") = (IsAcc(st2) /\ ~CanExtend(st2))
      [] r.ev = "Validate" /\ r.ok = 1 /\ ~Stopped(r.e) -> r.n = ValidLen(c, st, r.seq, FALSE)
      [] r.ev = "TryConsume" /\ r.ok = 1 /\ ~Stopped(r.e) -> r.n = ValidLen(c, st, r.seq, TRUE)
      [] r.ev = "FFBytes" -> Forced(st, r.b)
      [] OTHER -> TRUE

Explain(r) ==
    IF ~Has(r.e) \/ ~Ok(r.e) THEN TRUE ELSE
    LET s == eng[r.e]
        c == s.cfgi
        st == ChartOf(HistBytes(c, s.hist))
    IN PrintT(<<"WHY", r.ev, "hist", s.hist, "bytes", HistBytes(c, s.hist), "expected-mask", ExactMask(c, st),
                "accepting", IsAcc(st), "next-bytes", Next1(st)>>)

(* remember the chart of the history the event was evaluated in *)
Remember(r) ==
    IF r.ev \in {"Init", "New", "Clone"} \/ ~Has(r.e) THEN UNCHANGED ch
    ELSE LET hb == HistBytes(eng[r.e].cfgi, eng[r.e].hist) IN
         IF hb \in DOMAIN ch THEN UNCHANGED ch ELSE ch' = (hb :> ChartOf(hb)) @@ ch

Step ==
    /\ Rec[l].ev # "Init"
    /\ ini > 0
    /\ IF ~gx.reduced
       THEN (* unproductive / undefined nonterminals: outside the claim *)
            UNCHANGED <<eng, F, A, ch>>
       ELSE LET r == Rec[l]
                voc == IF r.ev = "New" THEN Rec[ini].cfgs[r.c + 1] ELSE <<>>
            IN /\ ENext(r, voc)
               /\ (IF Exact(r) THEN TRUE ELSE (IOEnv.EXPLAIN = "1" /\ Explain(r) /\ FALSE))
               /\ Remember(r)
    /\ UNCHANGED <<ini, gx>>

TNext == l <= Len(Rec) /\ l' = l + 1 /\ (StartEpisode \/ Step)

TSpec == TInit /\ [][TNext]_vars

Accepted ==
    LET d == TLCGet("stats").diameter IN
    IF d - 1 = Len(Rec) THEN TRUE
    ELSE /\ PrintT(<<"REJECT", d>>)
         /\ FALSE
=============================================================================
