--------------------------- MODULE Trace_Numeric ---------------------------
(* C08.  One event per numeric schema: whether it compiled and, for a list of plain decimal  *)
(* literals in and around the interval, whether the engine accepts the literal as a complete *)
(* document.  Accepted iff every verdict equals Numeric!NumAccepts, and the compile verdict  *)
(* is consistent: a schema with a satisfying witness must compile; a schema the generator    *)
(* marks as provably empty (small integer arithmetic, re-checked here) must not.             *)
EXTENDS Numeric, Json, IOUtils

Rec == ndJsonDeserialize(IOEnv.TRACE)

VARIABLE l

Schema(r) == [type |-> r.type, min |-> r.min, xmin |-> r.xmin, max |-> r.max, xmax |-> r.xmax, mul |-> r.mul]

(* small-number emptiness proof for integer-valued bounds and integer multipleOf, all within 31 bits *)
SmallVal(d) == (IF d.neg = 1 THEN -1 ELSE 1) * DigitsVal(StripLeading(d.i), 0)
Small(d) == IsInt(d) /\ Len(StripLeading(d.i)) <= 8

ProvablyEmpty(r) ==
    LET s == Schema(r)
        bs == s.min \o s.xmin \o s.max \o s.xmax \o s.mul
    IN  /\ s.type = "integer"
        /\ \A k \in DOMAIN bs : Small(bs[k])
        /\ LET los == {SmallVal(s.min[k]) : k \in DOMAIN s.min} \cup {SmallVal(s.xmin[k]) + 1 : k \in DOMAIN s.xmin}
               his == {SmallVal(s.max[k]) : k \in DOMAIN s.max} \cup {SmallVal(s.xmax[k]) - 1 : k \in DOMAIN s.xmax}
               m == IF Present(s.mul) THEN SmallVal(s.mul[1]) ELSE 1
           IN  /\ los # {} /\ his # {}
               /\ LET lo == CHOOSE x \in los : \A y \in los : y <= x
                      hi == CHOOSE x \in his : \A y \in his : x <= y
                  IN  (* no multiple of m in lo..hi *)
                      \/ lo > hi
                      \/ m > 0 /\ hi - lo < m /\ \A v \in lo..hi : v % m # 0

Num(r) ==
    /\ r.ev = "Num"
    /\ LET s == Schema(r) IN
       IF r.compiled = 1
       THEN /\ ~ProvablyEmpty(r)
            /\ \A k \in DOMAIN r.lits : (r.lits[k].acc = 1) = NumAccepts(s, r.lits[k].lit)
       ELSE (* rejected at compile time: then no literal we know of may satisfy the schema *)
            \A k \in DOMAIN r.lits : ~NumAccepts(s, r.lits[k].lit)

(* diagnostics: the literals whose verdict differs, with the expected verdict *)
Explain(r) ==
    r.ev # "Num" \/
    LET s == Schema(r) IN
    PrintT(<<"WHY", r.stext, "compiled", r.compiled, "provably-empty", ProvablyEmpty(r),
             {<<r.lits[k].text, "expected", NumAccepts(s, r.lits[k].lit), "got", r.lits[k].acc>> :
                k \in {j \in DOMAIN r.lits : (r.lits[j].acc = 1) # NumAccepts(s, r.lits[j].lit)}}>>)

Init == l = 1
Next == l <= Len(Rec) /\ l' = l + 1 /\ (IF Rec[l].ev = "Init" \/ Num(Rec[l]) THEN TRUE ELSE (IOEnv.EXPLAIN = "1" /\ Explain(Rec[l]) /\ FALSE))
TSpec == Init /\ [][Next]_l

Accepted ==
    LET d == TLCGet("stats").diameter IN
    IF d - 1 = Len(Rec) THEN TRUE ELSE PrintT(<<"REJECT", d>>) /\ FALSE
=============================================================================
