----------------------------- MODULE Trace_Json -----------------------------
(* C06 / C07 (and the validator cross-check).  Episode = one schema.                           *)
(*   Init     schema |-> bytes of the schema text, pats |-> pattern table                      *)
(*   Compile  ok |-> 0/1                                                                         *)
(*   Output   b |-> bytes of a complete output the engine admitted (reached through its masks)  *)
(*            => must be well-formed JSON that validates (C06)                                  *)
(*   Instance b |-> bytes of a candidate instance text, acc |-> engine verdict                  *)
(*            => acc implies valid (C06); valid, compact and in schema key order implies acc (C07) *)
(*   Check    b, valid |-> verdict of a reference validator (cross-check of this specification) *)
EXTENDS JsonSchema, Json, IOUtils

Rec == ndJsonDeserialize(IOEnv.TRACE)

VARIABLES l, sch

vars == <<l, sch>>

TInit == l = 1 /\ sch = [ok |-> FALSE, v |-> <<"null">>, pats |-> <<>>, exact |-> FALSE]

StartEpisode ==
    /\ Rec[l].ev = "Init"
    /\ LET p == Parse(Rec[l].schema) IN
       sch' = [ok |-> p.ok, v |-> p.v, pats |-> Rec[l].pats, exact |-> p.ok /\ AllExact(Rec[l].pats, p.v, 40)]

ValidText(b) == LET p == Parse(b) IN p.ok /\ Validate(sch.pats, sch.v, p.v)
(* diagnostic: valid if a key spelled with a needless escape is taken as a different key *)
ValidWithFeb29EveryYear(b) == LET p == Parse(b) IN p.ok /\ ValidateLenientDates(sch.pats, sch.v, p.v)
ValidKeepingEscapedKeysApart(b) == LET p == ParseMode(b, TRUE) IN p.ok /\ Validate(sch.pats, sch.v, p.v)

(* keys of every object listed in `properties` come first, in schema order (the engine fixes *)
(* the order); checked on the top-level and nested objects through the schema's properties   *)
RECURSIVE OrderOK(_, _, _)
OrderOK(S, v, fuel) ==
    IF fuel = 0 \/ ~IsObj(S) THEN TRUE
    ELSE LET S1 == IF Has(S, K_Dref) /\ IsStr(Get(S, K_Dref)[1]) /\ Resolve(sch.v, Get(S, K_Dref)[1][2]) # <<>>
                   THEN Resolve(sch.v, Get(S, K_Dref)[1][2])[1] ELSE S
         IN
         IF ~IsObj(S1) THEN TRUE
         ELSE IF IsObj(v) /\ Has(S1, K_properties) /\ IsObj(Get(S1, K_properties)[1]) THEN
            LET props == Get(S1, K_properties)[1]
                pk == Keys(props)
                vk == Keys(v)
                pos(k) == CHOOSE i \in DOMAIN pk : pk[i] = k
                listedIdx == {i \in DOMAIN vk : \E j \in DOMAIN pk : pk[j] = vk[i]}
            IN  /\ \A i, j \in listedIdx : i < j => pos(vk[i]) < pos(vk[j])
                /\ \A i \in listedIdx : \A j \in DOMAIN vk : j \notin listedIdx => i < j
                /\ \A i \in listedIdx : OrderOK(Get(props, vk[i])[1], v[2][i][2], fuel - 1)
         ELSE IF IsArr(v) /\ Has(S1, K_items) THEN \A i \in DOMAIN v[2] : OrderOK(Get(S1, K_items)[1], v[2][i], fuel - 1)
         ELSE TRUE

Canonical(b) == IsCompact(b) /\ OrderOK(sch.v, Parse(b).v, 20)

(* views (env JVIEW): C06 asserts soundness (what the engine admits validates), C07 completeness (what validates, *)
(* in canonical form, is admitted); "all" both.  An admitted text that does not validate is C06's business and  *)
(* is not reported a second time under C07.                                                                     *)
Sound == IOEnv.JVIEW \in {"all", "C06"}
Complete == IOEnv.JVIEW \in {"all", "C07"}
Event(r) ==
    CASE r.ev = "Compile" -> TRUE
      [] r.ev = "Output" -> sch.ok /\ (Sound => ValidText(r.b))
      [] r.ev = "Instance" ->
            /\ (Sound /\ r.acc = 1) => ValidText(r.b)
            /\ (Complete /\ sch.exact /\ ValidText(r.b) /\ Canonical(r.b)) => r.acc = 1
      [] r.ev = "Check" -> sch.ok /\ (ValidText(r.b) = (r.valid = 1))
      [] OTHER -> FALSE

Explain(r) ==
    r.ev \notin {"Output", "Instance", "Check"} \/
    PrintT(<<"WHY", r.ev, "parse-ok", Parse(r.b).ok, "valid", ValidText(r.b),
             "canonical", IF Parse(r.b).ok THEN Canonical(r.b) ELSE FALSE,
             "valid-with-escaped-keys-apart", ValidKeepingEscapedKeysApart(r.b),
             "valid-with-feb29-every-year", ValidWithFeb29EveryYear(r.b), r>>)

Step == Rec[l].ev # "Init" /\ (IF Event(Rec[l]) THEN TRUE ELSE (IOEnv.EXPLAIN = "1" /\ Explain(Rec[l]) /\ FALSE)) /\ UNCHANGED sch

TNext == l <= Len(Rec) /\ l' = l + 1 /\ (StartEpisode \/ Step)
TSpec == TInit /\ [][TNext]_vars

Accepted ==
    LET d == TLCGet("stats").diameter IN
    IF d - 1 = Len(Rec) THEN TRUE ELSE PrintT(<<"REJECT", d>>) /\ FALSE
=============================================================================
