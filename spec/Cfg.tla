------------------------------- MODULE Cfg -------------------------------
(***************************************************************************)
(* Context-free grammars over bytes.                                       *)
(*                                                                         *)
(* Surface form (what the generators emit next to the Lark text): a         *)
(* sequence of rules [lhs |-> name, alts |-> << <<item,..>>, .. >>] with     *)
(* EBNF items                                                              *)
(*   [k |-> "ref", n |-> name]        [k |-> "lit", b |-> <<byte,..>>]         *)
(*   [k |-> "cls", s |-> <<byte,..>>]  [k |-> "opt"/"star"/"plus", a |-> item]  *)
(*   [k |-> "tok", ids |-> <<token id,..>>]   (token-identity terminal)       *)
(*   [k |-> "rep", a |-> item, m |-> m, n |-> n or -1]                          *)
(*   [k |-> "group", alts |-> << <<item,..>>, .. >>]                           *)
(* Desugar turns it into a plain CFG: a set of productions <<lhs, rhs>>    *)
(* whose symbols are <<"nt", name>> or <<"t", byteset>>; names are tuples:  *)
(* <<rule name>> for the grammar's own rules, and the position (path)       *)
(* <<rule name, alternative, item, ...>> for the fresh nonterminals.        *)
(*                                                                         *)
(* Semantics: (1) declaratively by least-fixpoint charts (Derives,         *)
(* ViablePrefix), (2) executably by Earley item sets pushed byte by byte   *)
(* (the oracle used in trace validation); MC_Cfg checks (1) = (2).         *)
(***************************************************************************)
EXTENDS Naturals, Integers, Sequences, FiniteSets, TLC

NT(n) == <<"nt", n>>
T(S) == <<"t", S, 1>>              \* a terminal byte that ends its lexeme
Tmid(S) == <<"t", S, 0>>           \* a byte inside a literal
SeqSet(s) == {s[i] : i \in DOMAIN s}

RECURSIVE Flat(_)
Flat(ss) == IF ss = <<>> THEN <<>> ELSE Head(ss) \o Flat(Tail(ss))

(* ---- desugaring ------------------------------------------------------ *)
(* DItem(item, path) = [syms |-> symbol sequence standing for the item,     *)
(*                      prods |-> productions of the fresh nonterminals]    *)
RECURSIVE DItem(_, _), DSeq(_, _), DAlts(_, _, _)

DSeq(items, path) ==
    LET parts == [i \in DOMAIN items |-> DItem(items[i], Append(path, i))]
    IN  [syms |-> Flat([i \in DOMAIN items |-> parts[i].syms]),
         prods |-> UNION {parts[i].prods : i \in DOMAIN items}]

(* productions  name -> alt_j  for every alternative *)
DAlts(name, alts, path) ==
    LET parts == [j \in DOMAIN alts |-> DSeq(alts[j], Append(path, j))]
    IN  {<<name, parts[j].syms>> : j \in DOMAIN alts} \cup UNION {parts[j].prods : j \in DOMAIN alts}

DItem(it, path) ==
    CASE it.k = "ref" -> [syms |-> <<NT(<<it.n>>)>>, prods |-> {}]
      [] it.k = "lit" -> [syms |-> [i \in DOMAIN it.b |-> IF i = Len(it.b) THEN T({it.b[i]}) ELSE Tmid({it.b[i]})], prods |-> {}]
      [] it.k = "cls" -> [syms |-> <<T(SeqSet(it.s))>>, prods |-> {}]
      (* a token-identity terminal <name> / <[ids]> : consumes ONE token whose id is in the set *)
      [] it.k = "tok" -> [syms |-> <<<<"tk", SeqSet(it.ids)>>>>, prods |-> {}]
      [] it.k = "group" -> [syms |-> <<NT(path)>>, prods |-> DAlts(path, it.alts, path)]
      [] it.k = "opt" ->
            LET d == DItem(it.a, Append(path, 0)) IN
            [syms |-> <<NT(path)>>, prods |-> {<<path, <<>> >>, <<path, d.syms>>} \cup d.prods]
      [] it.k = "star" ->
            LET d == DItem(it.a, Append(path, 0)) IN
            [syms |-> <<NT(path)>>, prods |-> {<<path, <<>> >>, <<path, <<NT(path)>> \o d.syms>>} \cup d.prods]
      [] it.k = "plus" ->
            LET d == DItem(it.a, Append(path, 0)) IN
            [syms |-> <<NT(path)>>, prods |-> {<<path, d.syms>>, <<path, <<NT(path)>> \o d.syms>>} \cup d.prods]
      [] it.k = "rep" ->
            (* x{m,n}: counter nonterminals <<path, "c", i>> = "at most i more, at least max(0, i-(n-m))" *)
            LET d == DItem(it.a, Append(path, 0))
                m == it.m
                n == it.n
                C(i) == path \o <<-1, i>>
            IN  IF n < 0
                THEN (* x{m,} = x^m x* *)
                     [syms |-> Flat([i \in 1..m |-> d.syms]) \o <<NT(path)>>,
                      prods |-> {<<path, <<>> >>, <<path, <<NT(path)>> \o d.syms>>} \cup d.prods]
                ELSE [syms |-> Flat([i \in 1..m |-> d.syms]) \o <<NT(C(n - m))>>,
                      prods |-> {<<C(0), <<>> >>}
                                \cup {<<C(i), <<>> >> : i \in 1..(n - m)}
                                \cup {<<C(i), d.syms \o <<NT(C(i - 1))>> >> : i \in 1..(n - m)}
                                \cup d.prods]

Desugar(rules) ==
    UNION {DAlts(<<rules[i].lhs>>, rules[i].alts, <<rules[i].lhs>>) : i \in DOMAIN rules}

Lhs(P) == {p[1] : p \in P}

(* ---- static analyses ------------------------------------------------- *)
RECURSIVE NullFix(_, _)
NullFix(P, N) ==
    LET N2 == N \cup {p[1] : p \in {q \in P : \A i \in DOMAIN q[2] : q[2][i][1] = "nt" /\ q[2][i][2] \in N}}
    IN  IF N2 = N THEN N ELSE NullFix(P, N2)
NullableNTs(P) == NullFix(P, {})

RECURSIVE ProdFix(_, _)
ProdFix(P, N) ==
    LET N2 == N \cup {p[1] : p \in {q \in P : \A i \in DOMAIN q[2] :
                                      (q[2][i][1] \in {"t", "tk"} /\ q[2][i][2] # {}) \/ (q[2][i][1] = "nt" /\ q[2][i][2] \in N)}}
    IN  IF N2 = N THEN N ELSE ProdFix(P, N2)
ProductiveNTs(P) == ProdFix(P, {})

RECURSIVE ReachFix(_, _)
ReachFix(P, N) ==
    LET N2 == N \cup
              UNION {{p[2][i][2] : i \in {j \in DOMAIN p[2] : p[2][j][1] = "nt"}} : p \in {q \in P : q[1] \in N}}
    IN  IF N2 = N THEN N ELSE ReachFix(P, N2)
ReachableNTs(P, start) == ReachFix(P, {start})

(* every nonterminal reachable from start is defined and productive *)
Reduced(P, start) ==
    LET R == ReachableNTs(P, start) IN R \subseteq Lhs(P) /\ R \subseteq ProductiveNTs(P)

(* ---- Earley item sets, pushed byte by byte --------------------------- *)
(* item = <<production, dot, origin>>; chart = sequence of item sets, chart[k+1] after k bytes *)
Item(p, d, o) == <<p, d, o>>
NextSym(it) == IF it[2] < Len(it[1][2]) THEN it[1][2][it[2] + 1] ELSE <<"end">>
Advance(it) == <<it[1], it[2] + 1, it[3]>>

(* G = [P |-> productions, nullable |-> nullable nonterminals, by |-> lhs -> its productions]   *)
MkG(P) == [P |-> P, nullable |-> NullableNTs(P), by |-> [n \in Lhs(P) |-> {p \in P : p[1] = n}]]

ProdsOf(G, n) == IF n \in DOMAIN G.by THEN G.by[n] ELSE {}

RECURSIVE Close(_, _, _, _, _)
(* semi-naive closure: S = item set under construction at position k (0-based), new = the    *)
(* items of S whose consequences have not been added yet; chart = the earlier sets.           *)
(* A completion with origin k is an empty derivation and is covered by the nullable skip      *)
(* (Aycock-Horspool), so completions only look into earlier, finished sets.                   *)
Close(G, chart, k, S, new) ==
    IF new = {} THEN S
    ELSE
    LET ntnext == {it \in new : NextSym(it)[1] = "nt"}
        pred == UNION {{Item(p, 0, k) : p \in ProdsOf(G, NextSym(it)[2])} : it \in ntnext}
        skip == {Advance(it) : it \in {x \in ntnext : NextSym(x)[2] \in G.nullable}}
        done == {it \in new : NextSym(it) = <<"end">> /\ it[3] < k}
        comp == UNION {{Advance(w) : w \in {x \in chart[it[3] + 1] : NextSym(x) = NT(it[1][1])}} : it \in done}
        new2 == (pred \cup skip \cup comp) \ S
    IN  Close(G, chart, k, S \cup new2, new2)

Chart0(G, start) ==
    LET S0 == {Item(p, 0, 0) : p \in ProdsOf(G, start)} IN <<Close(G, <<>>, 0, S0, S0)>>

(* push one byte; an empty last set means: not a viable prefix *)
PushByte(G, chart, b) ==
    LET k == Len(chart)
        scanned == {Advance(it) : it \in {x \in chart[k] : NextSym(x)[1] = "t" /\ b \in NextSym(x)[2]}}
    IN  Append(chart, IF scanned = {} THEN {} ELSE Close(G, chart, k, scanned, scanned))

RECURSIVE PushBytes(_, _, _)
PushBytes(G, chart, w) ==
    IF w = <<>> \/ chart[Len(chart)] = {} THEN chart
    ELSE PushBytes(G, PushByte(G, chart, Head(w)), Tail(w))

(* push one token-identity symbol (a token taken as itself, not as bytes) *)
PushTok(G, chart, t) ==
    LET k == Len(chart)
        scanned == {Advance(it) : it \in {x \in chart[k] : NextSym(x)[1] = "tk" /\ t \in NextSym(x)[2]}}
    IN  Append(chart, IF scanned = {} THEN {} ELSE Close(G, chart, k, scanned, scanned))

(* token ids that can come next as token-identity symbols *)
NextToks(chart) == UNION {NextSym(it)[2] : it \in {x \in chart[Len(chart)] : NextSym(x)[1] = "tk"}}

Dead(chart) == chart[Len(chart)] = {}
AcceptingChart(chart, start) ==
    \E it \in chart[Len(chart)] : it[1][1] = start /\ it[3] = 0 /\ NextSym(it) = <<"end">>
(* bytes that can come next *)
NextBytes(chart) == UNION {NextSym(it)[2] : it \in {x \in chart[Len(chart)] : NextSym(x)[1] = "t"}}

(* ---- %ignore (as the implementation documents it) --------------------- *)
(* `%ignore /[S]+/`, S a byte set no terminal uses.  The ignorable lexeme may be scanned after a complete lexeme   *)
(* whenever "the grammar didn't finish", i.e. some terminal may still follow; never before the first lexeme        *)
(* (allow_initial_skip is off by default) and never inside a literal.  It leaves the item sets unchanged.          *)
AtLexEnd(chart) ==
    \E it \in chart[Len(chart)] : it[2] > 0 /\ LET prev == it[1][2][it[2]] IN prev[1] = "t" /\ prev[3] = 1
IgnNow(chart, ign) ==
    IF ign # {} /\ Len(chart) > 1 /\ AtLexEnd(chart) /\ NextBytes(chart) # {} THEN ign ELSE {}
PushByteI(G, chart, b, ign) ==
    IF b \in ign THEN (IF b \in IgnNow(chart, ign) THEN chart ELSE Append(chart, {})) ELSE PushByte(G, chart, b)
RECURSIVE PushBytesI(_, _, _, _)
PushBytesI(G, chart, w, ign) ==
    IF w = <<>> \/ chart[Len(chart)] = {} THEN chart
    ELSE PushBytesI(G, PushByteI(G, chart, Head(w), ign), Tail(w), ign)

(* ---- declarative semantics (bounded word) ----------------------------- *)
(* Full[A,i,j]: A derives w[i+1..j];  computed as a least fixpoint over triples *)
DerivSeq(syms, w, i, j, F) ==
    (* can the symbol sequence derive w[i+1..j], given the relation F on nonterminals? *)
    LET n == Len(syms)
        RECURSIVE Go(_, _)
        Go(s, a) == IF s > n THEN a = j
                    ELSE IF syms[s][1] = "t" THEN a < j /\ w[a + 1] \in syms[s][2] /\ Go(s + 1, a + 1)
                    ELSE \E b \in a..j : <<syms[s][2], a, b>> \in F /\ Go(s + 1, b)
    IN  Go(1, i)

RECURSIVE FullFix(_, _, _)
FullFix(P, w, F) ==
    LET Cand == {<<p[1], i, j>> : p \in P, i \in 0..Len(w), j \in 0..Len(w)}
        F2 == F \cup {t \in Cand : t[2] <= t[3] /\ \E p \in P : p[1] = t[1] /\ DerivSeq(p[2], w, t[2], t[3], F)}
    IN  IF F2 = F THEN F ELSE FullFix(P, w, F2)

Derives(P, start, w) == <<start, 0, Len(w)>> \in FullFix(P, w, {})
=============================================================================
