--------------------------- MODULE Trace_StopCtl ---------------------------
EXTENDS StopCtl, TLC, Json, IOUtils

Rec == ndJsonDeserialize(IOEnv.TRACE)

VARIABLES l, ini, st

vars == <<l, ini, st>>

(* st: pre  = text before the current matching segment, seg = the segment (since the last special token),
       out  = everything returned so far, stopped, R = compiled stop expression (or Empty) *)
TInit == l = 1 /\ ini = 0 /\ st = <<>>

StartEpisode ==
    /\ Rec[l].ev = "Init" /\ ini' = l
    /\ st' = [pre |-> <<>>, seg |-> <<>>, out |-> <<>>, stopped |-> FALSE, dead |-> FALSE,
              R |-> IF Rec[l].has_rx = 1 THEN CompileTop(Rec[l].rx) ELSE Empty]

TokB(t) == Rec[ini].tok[t + 1]
StopToks == {Rec[ini].stop_tokens[i] : i \in DOMAIN Rec[ini].stop_tokens}

RECURSIVE DigitsOf(_)
DigitsOf(n) == IF n < 10 THEN <<48 + n>> ELSE DigitsOf(n \div 10) \o <<48 + (n % 10)>>

Commit(r) ==
    /\ r.ev = "StopCommit" /\ r.ok = 1
    /\ IF st.stopped
       THEN r.out = <<>> /\ r.stopped = 1 /\ UNCHANGED st        \* nothing is returned once stopped
       ELSE
       LET t == r.t
           b == TokB(t)
           isStopTok == t \in StopToks
           isSpecial == b # <<>> /\ b[1] = 255
           (* the text this token adds, and whether matching restarts *)
           pre2 == IF isStopTok THEN st.pre
                   ELSE IF isSpecial THEN st.pre \o st.seg \o Tail(b)
                   ELSE IF b = <<>> THEN st.pre \o st.seg \o <<60, 91>> \o DigitsOf(t) \o <<93, 62>>
                   ELSE st.pre
           seg2 == IF isStopTok THEN st.seg ELSE IF isSpecial \/ b = <<>> THEN <<>> ELSE st.seg \o b
           out2 == st.out \o r.out
           ms == MatchesIn(st.R, seg2)
       IN
       /\ WholeChars(pre2 \o seg2) => (r.lossy = 0 /\ WholeChars(r.out))   \* never splits a character
       /\ IF isStopTok
          THEN /\ r.stopped = 1
               /\ out2 = st.pre \o st.seg               \* everything before the stop token, nothing more
          ELSE IF ms # {}
          THEN (* a stop string / regex match exists: the run stops at the earliest end, and the   *)
               (* total output is the text before (some) match ending there                        *)
               /\ r.stopped = 1
               /\ \E p \in ms : p[2] = EarliestEnd(ms) /\ out2 = pre2 \o SubSeq(seg2, 1, p[1] - 1)
          ELSE /\ r.stopped = 0
               /\ IsPrefixOf(out2, pre2 \o seg2)        \* withheld text may come later, never other text
       /\ st' = [st EXCEPT !.pre = pre2, !.seg = seg2, !.out = out2, !.stopped = (r.stopped = 1)]

Step ==
    /\ Rec[l].ev # "Init" /\ ini > 0
    /\ \/ (Rec[l].ev = "NewStop" /\ UNCHANGED st)
       \/ Commit(Rec[l])
    /\ UNCHANGED ini

TNext == l <= Len(Rec) /\ l' = l + 1 /\ (StartEpisode \/ Step)
TSpec == TInit /\ [][TNext]_vars
Accepted ==
    LET d == TLCGet("stats").diameter IN
    IF d - 1 = Len(Rec) THEN TRUE ELSE PrintT(<<"REJECT", d>>) /\ FALSE
=============================================================================
