SPECIFICATION Spec
CONSTANTS
  Alphabet = {1, 2}
  MaxLen = 2
  MaxTok = 3
  MaxStart = 1
  Emit = FALSE
INVARIANTS LayoutInv NoUnderflow Capacity StackIsPath StartNode StartNone Result EmitReplay
CHECK_DEADLOCK FALSE
