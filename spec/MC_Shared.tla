------------------------------- MODULE MC_Shared -------------------------------
(***************************************************************************)
(* Clones of an engine that share one lazily materialised lexer (C14).     *)
(*                                                                         *)
(* Parser::with_shared locks the cell's mutex, MOVES the lexer out of the  *)
(* cell into the clone, runs the operation (which may append new DFA       *)
(* states to the table), moves the lexer back and unlocks.  deep_clone     *)
(* copies the table into a fresh cell.  The model has abstract DFA states  *)
(* AS; a table is an injective, append-only sequence of abstract states    *)
(* (id = position); every clone remembers ids (its lexer stack).           *)
(*                                                                         *)
(* Checked: mutual exclusion on each cell, ids held by clones always       *)
(* resolve, an id never changes its meaning (so what a clone computes from *)
(* its own ids does not depend on what other clones did in between), the   *)
(* table only grows.                                                       *)
(***************************************************************************)
EXTENDS Naturals, Sequences, FiniteSets, TLC

CONSTANTS Clones, AS, MaxOps, MaxClones

VARIABLES
    live,     \* set of clones that exist
    cell,     \* clone -> cell id
    table,    \* cell id -> sequence of abstract states (the materialised DFA states)
    holder,   \* cell id -> clone holding the mutex, or "none"
    lexerAt,  \* cell id -> "cell" or the clone the lexer was moved into
    pc,       \* clone -> "idle" | "locked" | "taken" | "done-op" | "put"
    ids,      \* clone -> sequence of state ids it refers to (lexer stack)
    want,     \* clone -> the abstract states its ids stand for (ghost: what a private engine would hold)
    nops      \* total operations performed

vars == <<live, cell, table, holder, lexerAt, pc, ids, want, nops>>

Cells == Clones   \* a cell is named after the clone that created it

IdOf(t, a) == CHOOSE i \in DOMAIN t : t[i] = a
Known(t, a) == \E i \in DOMAIN t : t[i] = a

Init ==
    LET c0 == CHOOSE c \in Clones : TRUE
        a0 == CHOOSE a \in AS : TRUE
    IN
    /\ live = {c0}
    /\ cell = [c \in Clones |-> c0]
    /\ table = [k \in Cells |-> IF k = c0 THEN <<a0>> ELSE <<>>]
    /\ holder = [k \in Cells |-> "none"]
    /\ lexerAt = [k \in Cells |-> "cell"]
    /\ pc = [c \in Clones |-> "idle"]
    /\ ids = [c \in Clones |-> IF c = c0 THEN <<1>> ELSE <<>>]
    /\ want = [c \in Clones |-> IF c = c0 THEN <<a0>> ELSE <<>>]
    /\ nops = 0

Acquire(c) ==
    /\ c \in live /\ pc[c] = "idle" /\ holder[cell[c]] = "none" /\ nops < MaxOps
    /\ holder' = [holder EXCEPT ![cell[c]] = c]
    /\ pc' = [pc EXCEPT ![c] = "locked"]
    /\ UNCHANGED <<live, cell, table, lexerAt, ids, want, nops>>

Take(c) ==
    /\ pc[c] = "locked" /\ lexerAt[cell[c]] = "cell"
    /\ lexerAt' = [lexerAt EXCEPT ![cell[c]] = c]
    /\ pc' = [pc EXCEPT ![c] = "taken"]
    /\ UNCHANGED <<live, cell, table, holder, ids, want, nops>>

(* the operation: move to abstract state a (a lexer transition); materialise it if new *)
Op(c, a) ==
    /\ pc[c] = "taken" /\ lexerAt[cell[c]] = c
    /\ LET t == table[cell[c]]
           t2 == IF Known(t, a) THEN t ELSE Append(t, a)
       IN  /\ table' = [table EXCEPT ![cell[c]] = t2]
           /\ ids' = [ids EXCEPT ![c] = Append(ids[c], IdOf(t2, a))]
           /\ want' = [want EXCEPT ![c] = Append(want[c], a)]
    /\ pc' = [pc EXCEPT ![c] = "done-op"]
    /\ nops' = nops + 1
    /\ UNCHANGED <<live, cell, holder, lexerAt>>

(* rollback: forget the last id *)
Pop(c) ==
    /\ pc[c] = "taken" /\ lexerAt[cell[c]] = c /\ Len(ids[c]) > 1
    /\ ids' = [ids EXCEPT ![c] = SubSeq(ids[c], 1, Len(ids[c]) - 1)]
    /\ want' = [want EXCEPT ![c] = SubSeq(want[c], 1, Len(want[c]) - 1)]
    /\ pc' = [pc EXCEPT ![c] = "done-op"]
    /\ nops' = nops + 1
    /\ UNCHANGED <<live, cell, table, holder, lexerAt>>

PutBack(c) ==
    /\ pc[c] = "done-op"
    /\ lexerAt' = [lexerAt EXCEPT ![cell[c]] = "cell"]
    /\ pc' = [pc EXCEPT ![c] = "put"]
    /\ UNCHANGED <<live, cell, table, holder, ids, want, nops>>

Release(c) ==
    /\ pc[c] = "put"
    /\ holder' = [holder EXCEPT ![cell[c]] = "none"]
    /\ pc' = [pc EXCEPT ![c] = "idle"]
    /\ UNCHANGED <<live, cell, table, lexerAt, ids, want, nops>>

(* clone(): same cell; only allowed while the source is not inside an operation *)
Clone(c, d) ==
    /\ c \in live /\ d \notin live /\ pc[c] = "idle" /\ Cardinality(live) < MaxClones
    /\ live' = live \cup {d}
    /\ cell' = [cell EXCEPT ![d] = cell[c]]
    /\ ids' = [ids EXCEPT ![d] = ids[c]]
    /\ want' = [want EXCEPT ![d] = want[c]]
    /\ UNCHANGED <<table, holder, lexerAt, pc, nops>>

(* deep_clone(): takes the lock to copy the table into a fresh cell *)
DeepClone(c, d) ==
    /\ c \in live /\ d \notin live /\ pc[c] = "idle" /\ holder[cell[c]] = "none" /\ Cardinality(live) < MaxClones
    /\ live' = live \cup {d}
    /\ cell' = [cell EXCEPT ![d] = d]
    /\ table' = [table EXCEPT ![d] = table[cell[c]]]
    /\ ids' = [ids EXCEPT ![d] = ids[c]]
    /\ want' = [want EXCEPT ![d] = want[c]]
    /\ UNCHANGED <<holder, lexerAt, pc, nops>>

Next ==
    \E c \in Clones :
        \/ Acquire(c) \/ Take(c) \/ Pop(c) \/ PutBack(c) \/ Release(c)
        \/ \E a \in AS : Op(c, a)
        \/ \E d \in Clones : Clone(c, d) \/ DeepClone(c, d)

Spec == Init /\ [][Next]_vars

(* ---- properties ---- *)
MutualExclusion ==
    \A c, d \in live : (c # d /\ cell[c] = cell[d]) => ~(pc[c] \in {"taken", "done-op"} /\ pc[d] \in {"taken", "done-op"})

LexerWhereExpected ==
    \A k \in Cells : lexerAt[k] # "cell" => (holder[k] = lexerAt[k] /\ pc[lexerAt[k]] \in {"taken", "done-op"})

(* every id a clone holds resolves, and to the abstract state a private engine would have *)
IdsMeanTheSame ==
    \A c \in live : /\ Len(ids[c]) = Len(want[c])
                    /\ \A i \in DOMAIN ids[c] : ids[c][i] \in DOMAIN table[cell[c]] /\ table[cell[c]][ids[c][i]] = want[c][i]

TableInjective == \A k \in Cells : \A i, j \in DOMAIN table[k] : table[k][i] = table[k][j] => i = j

AppendOnly == [][\A k \in Cells : Len(table[k]) > 0 =>
                    (Len(table'[k]) >= Len(table[k]) /\ SubSeq(table'[k], 1, Len(table[k])) = table[k])]_vars
=============================================================================
