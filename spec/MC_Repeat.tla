----------------------------- MODULE MC_Repeat -----------------------------
(* U1 for C09: the K-factored repetition encoding admits exactly the counts it names. *)
EXTENDS Repeat, Integers

CONSTANT N

VARIABLES m, n     \* n = -1: unbounded

Init == m \in 0..N /\ n \in {-1} \cup m..N
Next == UNCHANGED <<m, n>>
Spec == Init /\ [][Next]_<<m, n>>

Exact ==
    IF n < 0 THEN Repeat({1}, m, -1) = m..Cap
    ELSE Repeat({1}, m, n) = m..n
(* a nested repetition (x{2}){m,n}: element standing for exactly 2 copies *)
ExactNested ==
    n >= 0 /\ 2 * n <= Cap => Repeat({2}, m, n) = {2 * k : k \in m..n}
=============================================================================
