------------------------------ MODULE MC_Regex ------------------------------
(* U1: the derivative engine (Regex.tla) against the denotational semantics (RegexDenot.tla)   *)
(* for every raw regex built in at most Depth construction steps over a two-letter alphabet,   *)
(* and every word up to length MaxLen.  Also: Viable(r, w) iff some extension of w (bounded)   *)
(* is in the language.                                                                          *)
EXTENDS RegexDenot

CONSTANTS Depth, MaxLen, ExtLen

VARIABLES r, d

A == 97
B == 98
Base == {<<"eps">>, <<"set", {A}>>, <<"set", {B}>>, <<"set", {A, B}>>}

C == 99   \* stands for "any other byte" (matters under complement)
RECURSIVE WordsUpTo(_)
WordsUpTo(n) == IF n = 0 THEN {<<>>} ELSE LET W == WordsUpTo(n - 1) IN W \cup {Append(w, c) : w \in W, c \in {A, B, C}}
Words == WordsUpTo(MaxLen)
Short == WordsUpTo(MaxLen - ExtLen)

Init == r \in Base \cup {<<"empty">>} /\ d = 0

Grow(x, y) ==
    {<<"cat", x, y>>, <<"cat", y, x>>, <<"alt", {x, y}>>, <<"and", {x, y}>>, <<"not", x>>, <<"star", x>>,
     <<"rep", x, 0, 1>>, <<"rep", x, 1, 2>>, <<"rep", x, 2, 2>>, <<"rep", x, 1, Inf>>, <<"rep", x, 2, 3>>,
     <<"rep", x, 0, 2>>, <<"rep", x, 2, Inf>>}

Next == d < Depth /\ d' = d + 1 /\ \E y \in Base \cup {<<"not", <<"set", {A}>> >>, <<"star", <<"set", {A, B}>> >>} :
            r' \in Grow(r, y)

Spec == Init /\ [][Next]_<<r, d>>

IsPrefixOf(w, v) == Len(w) <= Len(v) /\ SubSeq(v, 1, Len(w)) = w

Agree ==
    LET n == Norm(r)
        L == LiveOf(n)
        Lang == {w \in Words : In(r, w)}
    IN  /\ \A w \in Words : Matches(n, w) = (w \in Lang)
        /\ \A w \in Short : (DS(n, w) \in L) = (\E v \in Lang : IsPrefixOf(w, v))
=============================================================================
