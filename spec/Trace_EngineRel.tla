------------------------ MODULE Trace_EngineRel ------------------------
(* Trace validation: a recorded ndjson trace (env TRACE) is accepted iff every event, in   *)
(* order, is a step of EngineRel.  Episodes are delimited by Init events, which reset the  *)
(* learned oracle.                                                                          *)
EXTENDS EngineRel, Json, IOUtils

Rec == ndJsonDeserialize(IOEnv.TRACE)

VARIABLES l, ini

vars == <<eng, F, A, l, ini>>

TInit == EInit /\ l = 1 /\ ini = 0

StartEpisode ==
    /\ Rec[l].ev = "Init"
    /\ eng' = <<>> /\ F' = <<>> /\ A' = <<>>
    /\ ini' = l

Step ==
    /\ Rec[l].ev # "Init"
    /\ ini > 0
    /\ LET r == Rec[l]
           voc == IF r.ev = "New" THEN Rec[ini].cfgs[r.c + 1] ELSE <<>>
       IN ENext(r, voc)
    /\ UNCHANGED ini

TNext == l <= Len(Rec) /\ l' = l + 1 /\ (StartEpisode \/ Step)

TSpec == TInit /\ [][TNext]_vars

Accepted ==
    LET d == TLCGet("stats").diameter IN
    IF d - 1 = Len(Rec) THEN TRUE
    ELSE /\ PrintT(<<"REJECT", d, IF d <= Len(Rec) THEN Rec[d] ELSE <<>> >>)
         /\ FALSE
=============================================================================
