----------------------------- MODULE JsonSchema -----------------------------
(***************************************************************************)
(* JSON Schema (Draft 2020-12, formats asserted) validity of a parsed      *)
(* JSON value against a parsed schema, for the keywords llguidance         *)
(* documents plus common ones it rejects (so that a silently ignored       *)
(* keyword shows up as an invalid output).  Both schema and instance are   *)
(* JsonValue.tla values; the schema is parsed by the same parser.          *)
(* Documented departure: keys matched only by additionalProperties /       *)
(* patternProperties may repeat; keys listed in `properties` may not.      *)
(* `pattern` / patternProperties regexes are looked up in a table          *)
(* P = << [text |-> cps, ast |-> surface regex, as |-> 0/1, ae |-> 0/1] >>   *)
(* supplied next to the schema (same AST the pattern text was printed from).*)
(***************************************************************************)
EXTENDS JsonValue, JsonKeys, RegexSurface

IsObj(v) == TagOf(v) = "obj"
IsArr(v) == TagOf(v) = "arr"
IsStr(v) == TagOf(v) = "str"
IsNum(v) == TagOf(v) = "num"

Kw(S, k) == Get(S, k)          \* <<>> or <<value>>
HasKw(S, k) == IsObj(S) /\ Has(S, k)

NumVal(v) == Shifted(v)
IsIntVal(v) == IsNum(v) /\ IsInt(NumVal(v))

TypeIs(t, v) ==
    CASE t = K_null -> TagOf(v) = "null"
      [] t = K_boolean -> TagOf(v) = "bool"
      [] t = K_integer -> IsIntVal(v)
      [] t = K_number -> IsNum(v)
      [] t = K_string -> IsStr(v)
      [] t = K_array -> IsArr(v)
      [] t = K_object -> IsObj(v)
      [] OTHER -> FALSE

(* ---- JSON pointer "#/a/b" into the root schema --------------------------- *)
RECURSIVE SplitPtr(_, _, _)
SplitPtr(cps, cur, acc) ==
    IF cps = <<>> THEN Append(acc, cur)
    ELSE IF Head(cps) = 47 THEN SplitPtr(Tail(cps), <<>>, Append(acc, cur))
    ELSE SplitPtr(Tail(cps), Append(cur, Head(cps)), acc)

RECURSIVE Walk(_, _)
Walk(v, segs) ==
    IF segs = <<>> THEN <<v>>
    ELSE IF IsObj(v) /\ Has(v, Head(segs)) THEN Walk(Get(v, Head(segs))[1], Tail(segs))
    ELSE <<>>

Resolve(root, ref) ==
    LET segs == SplitPtr(ref, <<>>, <<>>) IN
    IF segs[1] = K_hash THEN Walk(root, Tail(segs)) ELSE <<>>

(* ---- formats -------------------------------------------------------------- *)
D2(s, i) == (s[i] - 48) * 10 + (s[i + 1] - 48)
AllDigits(s, i, j) == \A k \in i..j : IsDigit(s[k])
Leap(y) == (y % 4 = 0 /\ y % 100 # 0) \/ y % 400 = 0
DaysIn(y, m) == IF m = 2 THEN (IF Leap(y) THEN 29 ELSE 28) ELSE IF m \in {4, 6, 9, 11} THEN 30 ELSE 31

(* ld ("lenient dates"): diagnostic mode in which February 29 exists in every year *)
IsDateL(s, ld) ==
    /\ Len(s) = 10 /\ s[5] = 45 /\ s[8] = 45
    /\ AllDigits(s, 1, 4) /\ AllDigits(s, 6, 7) /\ AllDigits(s, 9, 10)
    /\ LET y == D2(s, 1) * 100 + D2(s, 3)
           m == D2(s, 6)
           d == D2(s, 9)
       IN m >= 1 /\ m <= 12 /\ d >= 1 /\ d <= (IF ld /\ m = 2 THEN 29 ELSE DaysIn(y, m))
IsDate(s) == IsDateL(s, FALSE)

(* RFC 3339 full-time: HH:MM:SS[.frac](Z|+HH:MM|-HH:MM) *)
IsTime(s) ==
    /\ Len(s) >= 9 /\ s[3] = 58 /\ s[6] = 58
    /\ AllDigits(s, 1, 2) /\ AllDigits(s, 4, 5) /\ AllDigits(s, 7, 8)
    /\ D2(s, 1) <= 23 /\ D2(s, 4) <= 59 /\ D2(s, 7) <= 60
    /\ LET fend == IF s[9] = 46
                   THEN (CHOOSE k \in 10..(Len(s) + 1) : (\A j \in 10..(k - 1) : IsDigit(s[j])) /\ (k = Len(s) + 1 \/ ~IsDigit(s[k])))
                   ELSE 9
       IN  /\ (s[9] = 46 => fend > 10)
           /\ fend <= Len(s)
           /\ \/ (fend = Len(s) /\ s[fend] \in {90, 122})
              \/ /\ Len(s) = fend + 5 /\ s[fend] \in {43, 45} /\ s[fend + 3] = 58
                 /\ AllDigits(s, fend + 1, fend + 2) /\ AllDigits(s, fend + 4, fend + 5)
                 /\ D2(s, fend + 1) <= 23 /\ D2(s, fend + 4) <= 59

IsDateTimeL(s, ld) ==
    /\ Len(s) >= 20 /\ s[11] \in {84, 116}
    /\ IsDateL(SubSeq(s, 1, 10), ld) /\ IsTime(SubSeq(s, 12, Len(s)))
IsDateTime(s) == IsDateTimeL(s, FALSE)

RECURSIVE SplitOn(_, _, _, _)
SplitOn(s, c, cur, acc) ==
    IF s = <<>> THEN Append(acc, cur)
    ELSE IF Head(s) = c THEN SplitOn(Tail(s), c, <<>>, Append(acc, cur))
    ELSE SplitOn(Tail(s), c, Append(cur, Head(s)), acc)

IsIpv4(s) ==
    LET parts == SplitOn(s, 46, <<>>, <<>>) IN
    /\ Len(parts) = 4
    /\ \A i \in 1..4 : LET p == parts[i] IN
          /\ Len(p) >= 1 /\ Len(p) <= 3 /\ \A k \in DOMAIN p : IsDigit(p[k])
          /\ (Len(p) > 1 => p[1] # 48)
          /\ DigitsVal([k \in DOMAIN p |-> p[k] - 48], 0) <= 255

IsHexDigit(c) == HexVal(c) >= 0
IsUuid(s) ==
    /\ Len(s) = 36
    /\ \A i \in 1..36 : IF i \in {9, 14, 19, 24} THEN s[i] = 45 ELSE IsHexDigit(s[i])

FormatOK(f, s, ld) ==
    CASE f = K_date -> IsDateL(s, ld)
      [] f = K_time -> IsTime(s)
      [] f = K_date_time -> IsDateTimeL(s, ld)
      [] f = K_ipv4 -> IsIpv4(s)
      [] f = K_uuid -> IsUuid(s)
      [] OTHER -> TRUE

(* ---- patterns --------------------------------------------------------------- *)
AnyText == Star(Utf8Scalar)
PatternOK(P, text, s) ==
    LET idx == {i \in DOMAIN P : P[i].text = text} IN
    IF idx = {} THEN TRUE    \* pattern without a supplied AST: not asserted
    ELSE LET e == P[CHOOSE i \in idx : TRUE]
             r == CompileTop(e.ast)
             full == Cat(IF e.as = 1 THEN Eps ELSE AnyText, Cat(r, IF e.ae = 1 THEN Eps ELSE AnyText))
         IN  Matches(full, EncodeAll(s))

(* ---- numbers ---------------------------------------------------------------- *)
NumKwOK(S, v) ==
    LET x == NumVal(v)
        B(k) == IF HasKw(S, k) /\ IsNum(Kw(S, k)[1]) THEN <<NumVal(Kw(S, k)[1])>> ELSE <<>>
        s == [type |-> "number", min |-> B(K_minimum), xmin |-> B(K_exclusiveMinimum),
              max |-> B(K_maximum), xmax |-> B(K_exclusiveMaximum), mul |-> <<>>]
    IN  /\ NumAccepts(s, x)
        /\ HasKw(S, K_multipleOf) /\ IsNum(Kw(S, K_multipleOf)[1]) =>
              (* integer multiples of a decimal divisor, on digit sequences *)
              MultipleOf(x, NumVal(Kw(S, K_multipleOf)[1]))

(* ---- the validity relation ---------------------------------------------------- *)
RECURSIVE Valid(_, _, _, _, _, _)

SeqAll(s, Pred(_)) == \A i \in DOMAIN s : Pred(s[i])

Valid(root, P, S, v, fuel, ld) ==
    IF fuel = 0 THEN TRUE
    ELSE IF TagOf(S) = "bool" THEN S[2]
    ELSE IF ~IsObj(S) THEN TRUE
    ELSE
    LET V(S2, v2) == Valid(root, P, S2, v2, fuel - 1, ld)
        kw(k) == Kw(S, k)[1]
        has(k) == Has(S, k)
        arr(k) == kw(k)[2]
        listed == IF has(K_properties) /\ IsObj(kw(K_properties)) THEN kw(K_properties) ELSE <<"obj", <<>>>>
        patprops == IF has(K_patternProperties) /\ IsObj(kw(K_patternProperties)) THEN kw(K_patternProperties) ELSE <<"obj", <<>>>>
        MatchingPats(key) == {i \in DOMAIN patprops[2] : PatternOK(P, patprops[2][i][1], key)}
        IsAdditional(key) == ~Has(listed, key) /\ MatchingPats(key) = {}
    IN
    /\ has(K_Dref) /\ IsStr(kw(K_Dref)) =>
          LET t == Resolve(root, kw(K_Dref)[2]) IN t # <<>> /\ V(t[1], v)
    /\ has(K_type) =>
          IF IsStr(kw(K_type)) THEN TypeIs(kw(K_type)[2], v)
          ELSE IsArr(kw(K_type)) /\ \E i \in DOMAIN arr(K_type) : IsStr(arr(K_type)[i]) /\ TypeIs(arr(K_type)[i][2], v)
    /\ has(K_enum) /\ IsArr(kw(K_enum)) => \E i \in DOMAIN arr(K_enum) : JsonEq(arr(K_enum)[i], v)
    /\ has(K_const) => JsonEq(kw(K_const), v)
    /\ has(K_allOf) /\ IsArr(kw(K_allOf)) => \A i \in DOMAIN arr(K_allOf) : V(arr(K_allOf)[i], v)
    /\ has(K_anyOf) /\ IsArr(kw(K_anyOf)) => \E i \in DOMAIN arr(K_anyOf) : V(arr(K_anyOf)[i], v)
    /\ has(K_oneOf) /\ IsArr(kw(K_oneOf)) => Cardinality({i \in DOMAIN arr(K_oneOf) : V(arr(K_oneOf)[i], v)}) = 1
    /\ has(K_not) => ~V(kw(K_not), v)
    /\ has(K_if) =>
          IF V(kw(K_if), v) THEN (has(K_then) => V(kw(K_then), v)) ELSE (has(K_else) => V(kw(K_else), v))
    (* numbers *)
    /\ IsNum(v) => NumKwOK(S, v)
    (* strings *)
    /\ IsStr(v) =>
          /\ has(K_minLength) /\ IsNum(kw(K_minLength)) => Len(v[2]) >= DigitsVal(NumVal(kw(K_minLength)).i, 0)
          /\ has(K_maxLength) /\ IsNum(kw(K_maxLength)) => Len(v[2]) <= DigitsVal(NumVal(kw(K_maxLength)).i, 0)
          /\ has(K_pattern) /\ IsStr(kw(K_pattern)) => PatternOK(P, kw(K_pattern)[2], v[2])
          /\ has(K_format) /\ IsStr(kw(K_format)) => FormatOK(kw(K_format)[2], v[2], ld)
    (* arrays *)
    /\ IsArr(v) =>
          LET es == v[2]
              npre == IF has(K_prefixItems) /\ IsArr(kw(K_prefixItems)) THEN Len(arr(K_prefixItems)) ELSE 0
          IN
          /\ has(K_minItems) /\ IsNum(kw(K_minItems)) => Len(es) >= DigitsVal(NumVal(kw(K_minItems)).i, 0)
          /\ has(K_maxItems) /\ IsNum(kw(K_maxItems)) => Len(es) <= DigitsVal(NumVal(kw(K_maxItems)).i, 0)
          /\ \A i \in DOMAIN es : i <= npre => V(arr(K_prefixItems)[i], es[i])
          /\ has(K_items) => \A i \in DOMAIN es : i > npre => V(kw(K_items), es[i])
          /\ has(K_uniqueItems) /\ kw(K_uniqueItems) = <<"bool", TRUE>> =>
                \A i, j \in DOMAIN es : i < j => ~JsonEq(es[i], es[j])
          /\ has(K_contains) => \E i \in DOMAIN es : V(kw(K_contains), es[i])
    (* objects *)
    /\ IsObj(v) =>
          LET ms == v[2]
              keys == {ms[i][1] : i \in DOMAIN ms}
          IN
          /\ has(K_minProperties) /\ IsNum(kw(K_minProperties)) => Cardinality(keys) >= DigitsVal(NumVal(kw(K_minProperties)).i, 0)
          /\ has(K_maxProperties) /\ IsNum(kw(K_maxProperties)) => Cardinality(keys) <= DigitsVal(NumVal(kw(K_maxProperties)).i, 0)
          /\ has(K_required) /\ IsArr(kw(K_required)) =>
                \A i \in DOMAIN arr(K_required) : IsStr(arr(K_required)[i]) => arr(K_required)[i][2] \in keys
          /\ \A i \in DOMAIN ms :
                LET key == ms[i][1]
                    val == ms[i][2]
                IN  /\ Has(listed, key) => V(Get(listed, key)[1], val)
                    /\ \A j \in MatchingPats(key) : V(patprops[2][j][2], val)
                    /\ IsAdditional(key) /\ has(K_additionalProperties) => V(kw(K_additionalProperties), val)
                    /\ has(K_propertyNames) => V(kw(K_propertyNames), <<"str", key>>)
          (* the documented departure: only additional / pattern keys may repeat *)
          /\ \A i, j \in DOMAIN ms : i < j /\ ms[i][1] = ms[j][1] => ~Has(listed, ms[i][1])
          /\ has(K_dependentRequired) /\ IsObj(kw(K_dependentRequired)) =>
                \A i \in DOMAIN kw(K_dependentRequired)[2] :
                    LET dk == kw(K_dependentRequired)[2][i][1]
                        dv == kw(K_dependentRequired)[2][i][2]
                    IN  dk \in keys /\ IsArr(dv) => \A j \in DOMAIN dv[2] : IsStr(dv[2][j]) => dv[2][j][2] \in keys

Validate(P, S, v) == Valid(S, P, S, v, 200, FALSE)
ValidateLenientDates(P, S, v) == Valid(S, P, S, v, 200, TRUE)

(* Is every pattern / format of the schema given meaning by this specification?  (Otherwise   *)
(* Validate over-approximates and only the soundness direction may be asserted.)              *)
KnownFormats == {K_date, K_time, K_date_time, K_ipv4, K_uuid}
RECURSIVE AllExact(_, _, _)
AllExact(P, S, fuel) ==
    IF fuel = 0 THEN TRUE
    ELSE IF IsObj(S) THEN
        \A i \in DOMAIN S[2] :
            LET k == S[2][i][1]
                x == S[2][i][2]
            IN  /\ (k = K_pattern /\ IsStr(x)) => \E j \in DOMAIN P : P[j].text = x[2]
                /\ (k = K_format /\ IsStr(x)) => x[2] \in KnownFormats
                /\ (k = K_patternProperties /\ IsObj(x)) => \A m \in DOMAIN x[2] : \E j \in DOMAIN P : P[j].text = x[2][m][1]
                /\ AllExact(P, x, fuel - 1)
    ELSE IF IsArr(S) THEN \A i \in DOMAIN S[2] : AllExact(P, S[2][i], fuel - 1)
    ELSE TRUE
=============================================================================
