----------------------------- MODULE Trace_Impl -----------------------------
(***************************************************************************)
(* Trace validation against the IMPLEMENTATION-SHAPED model EngineImpl.tla *)
(* (not only against the reference semantics, as Trace_Lex does): the      *)
(* recorded calls of engine 1 of a scripted episode are replayed on the    *)
(* model state - virtual stack, rows, forced bytes, caches, fast-forward   *)
(* tokens with token healing - and every recorded result must be EXACTLY   *)
(* the model's: masks (including the narrowing to the first fast-forward   *)
(* token under a canonical tokenizer), accepting flags, forced bytes, the   *)
(* fast-forward tokens themselves (greedy tokenisation + chop_tokens),      *)
(* commit verdicts and stop reasons, rollback verdicts.                     *)
(* Init carries the grammar (lexemes, rules), the vocabulary and the       *)
(* canonical flag, as for Trace_Lex.                                        *)
(***************************************************************************)
EXTENDS EngineImpl, SequencesExt, Json, IOUtils

Rec == ndJsonDeserialize(IOEnv.TRACE)
Fuel == 64

VARIABLES l, env, s
vars == <<l, env, s>>

SeqToSetI(q) == {q[i] : i \in DOMAIN q}
RECURSIVE LexLess(_, _)
LexLess(a, b) ==
    IF a = <<>> THEN b # <<>>
    ELSE IF b = <<>> THEN FALSE
    ELSE IF Head(a) # Head(b) THEN Head(a) < Head(b)
    ELSE LexLess(Tail(a), Tail(b))

MkEnv(r) ==
    LET P == Desugar(r.lex.rules)
        voc == r.cfgs[1]
        lz == IF "lazy" \in DOMAIN r.lex THEN SeqToSetI(r.lex.lazy) ELSE {}
        L == [i \in 0..(Len(r.lex.lexemes) - 1) |-> MkLexemeZ(r.lex.lexemes[i + 1], i \in lz)]
        text == {t \in 0..(voc.n - 1) : voc.tok[t + 1] # <<>> /\ voc.tok[t + 1][1] # 255}
        order == SortSeq(SetToSeq(text), LAMBDA a, b : LexLess(voc.tok[a + 1], voc.tok[b + 1]) \/ (voc.tok[a + 1] = voc.tok[b + 1] /\ a < b))
        lens == {Len(voc.tok[i]) : i \in DOMAIN voc.tok}
    IN  [G |-> MkG(P), start |-> <<r.lex.start>>, L |-> L,
         skip |-> IF "skip" \in DOMAIN r.lex THEN r.lex.skip ELSE NoSkip,
         tok |-> voc.tok, eos |-> voc.eos, order |-> order,
         alpha |-> UNION {SeqToSetI(voc.tok[t + 1]) : t \in text},
         canon |-> voc.canon = 1, maxlen |-> CHOOSE m \in lens : \A x \in lens : x <= m,
         sw |-> [clearOnRollback |-> TRUE, keyRow |-> TRUE, keyPending |-> TRUE, resetLastForce |-> TRUE, vendMax |-> FALSE,
                 clearFFOnRollback |-> TRUE],
         usable |-> Reduced(P, <<r.lex.start>>) /\ \A i \in DOMAIN L : L[i].rx \in L[i].live /\ ~R!Nullable(L[i].rx)]

TInit == l = 1 /\ env = <<>> /\ s = <<>>

StartEpisode ==
    /\ Rec[l].ev = "Init"
    /\ env' = MkEnv(Rec[l])
    /\ s' = <<>>

StopName(st) == CASE st = "none" -> "NotStopped" [] st = "eos" -> "EndOfSentence" [] st = "noext" -> "NoExtension" [] OTHER -> "?"

(* the model's step for a recorded call, and whether the recorded result is the model's *)
Apply(r) ==
    CASE r.ev = "Mask" -> Mask(env, s, Fuel)
      [] r.ev = "Acc" -> IsAccepting(env, s)
      [] r.ev = "FFBytes" -> Force(env, s, Fuel)
      [] r.ev = "FFTokens" -> FFTokens(env, s, Fuel)
      [] r.ev = "Consume" -> Commit(env, s, r.t)
      [] r.ev = "Rollback" -> Rollback(env, s, r.k)
      [] r.ev = "Reset" -> Rollback(env, s, Len(s.toks))
      [] r.ev = "Invalidate" -> Invalidate(env, s)
      [] OTHER -> [s |-> s, res |-> <<"skip">>]

(* calls that leave the session as it is (speculative; no cache the model tracks) *)
ReadOnly == {"Validate", "ValidateAll", "Status", "ConsumeEach", "Clone"}
Modelled == {"Mask", "Acc", "FFBytes", "FFTokens", "Consume", "Rollback", "Reset", "Invalidate"}

Same(r, m) ==
    CASE r.ev = "Mask" -> IF r.ok = 1 THEN m.res = <<"mask", SeqToSetI(r.set)>> ELSE m.res = <<"err">>
      [] r.ev = "Acc" -> IF r.ok = 1 THEN m.res = <<"acc", r.v = 1>> ELSE m.res = <<"err">>
      [] r.ev = "FFBytes" -> m.res = <<"ff", r.b>> \/ (m.res = <<"err">> /\ r.b = <<>>)
      [] r.ev = "FFTokens" -> m.res = <<"fft", r.toks>> \/ (m.res = <<"err">> /\ r.toks = <<>>)
      [] r.ev = "Consume" -> /\ (r.ok = 1) = (m.res = <<"ok">>)
                             /\ r.ok = 1 => r.st = StopName(m.s.stop)
      [] r.ev \in {"Rollback", "Reset"} -> (r.ok = 1) = (m.res = <<"ok">>)
      [] OTHER -> TRUE

Explain(r, m) ==
    PrintT(<<"WHY", r.ev, "model", m.res, "toks", s.toks, "bytes", s.bytes, "nb", s.nb, "mode", s.mode, "stop", s.stop, r>>)

Step ==
    /\ Rec[l].ev # "Init" /\ env # <<>>
    /\ UNCHANGED env
    /\ LET r == Rec[l] IN
       IF ~env.usable \/ ("e" \in DOMAIN r /\ r.e # 1) THEN UNCHANGED s
       ELSE IF r.ev = "New" THEN s' = (IF r.ok = 1 THEN Init0(env) ELSE <<>>)
       ELSE IF s = <<>> \/ r.ev \in ReadOnly THEN UNCHANGED s
       ELSE IF r.ev \notin Modelled THEN s' = <<>>      \* a call the model has no step for: the rest of the episode is not judged
       ELSE LET m == Apply(r) IN
            /\ (IF Same(r, m) THEN TRUE ELSE (IOEnv.EXPLAIN = "1" /\ Explain(r, m) /\ FALSE))
            /\ s' = m.s

TNext == l <= Len(Rec) /\ l' = l + 1 /\ (StartEpisode \/ Step)
TSpec == TInit /\ [][TNext]_vars
Accepted ==
    LET d == TLCGet("stats").diameter IN
    IF d - 1 = Len(Rec) THEN TRUE ELSE PrintT(<<"REJECT", d>>) /\ FALSE
=============================================================================
