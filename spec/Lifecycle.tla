------------------------------ MODULE Lifecycle ------------------------------
(***************************************************************************)
(* C20 as a protocol: every input is either built or rejected with a       *)
(* reported error; every call on a built engine ends in Ok, a documented   *)
(* stop, or a reported error; a failed engine keeps reporting its failure; *)
(* every step finishes within its time budget.  There is NO action for an  *)
(* internal panic after construction, for a crash / abort / stack overflow *)
(* of the process, or for a time-out: such events end the trace.           *)
(***************************************************************************)
EXTENDS Naturals, Sequences

VARIABLE phase       \* "idle" | "built" | "rejected" | "failed"

Reported == {"reject", "range", "rollback", "stopped", "limit", "empty", "other"}
Stops == {"NotStopped", "MaxTokensTotal", "NoExtension", "NoExtensionBias", "EndOfSentence", "LexerTooComplex",
          "ParserTooComplex", "InternalError"}

Begin(r) == r.ev = "Begin" /\ phase' = "idle"

Build(r, budget) ==
    /\ r.ev = "Build" /\ phase = "idle"
    /\ r.ms <= budget
    /\ IF r.ok = 1 THEN phase' = "built"
       ELSE (* a construction-time panic caught and reported as an error counts as a reported error *)
            /\ r.cls \in Reported \cup {"panic"}
            /\ phase' = "rejected"

Call(r, budget) ==
    /\ r.ev = "Call" /\ phase \in {"built", "failed"}
    /\ r.ms <= budget
    /\ r.st \in Stops
    /\ IF r.name = "clone_mask_or_eos"
       THEN (* a call on a throw-away deep clone: same outcome alphabet, no effect on the engine *)
            /\ (r.ok = 0 => r.cls \in Reported)
            /\ (phase = "failed" => r.ok = 0)
            /\ UNCHANGED phase
       ELSE IF phase = "failed"
       THEN (* a failed engine keeps reporting its failure *)
            /\ r.er = 1
            /\ (r.name \in {"ff_bytes"} \/ r.ok = 0)
            /\ UNCHANGED phase
       ELSE /\ (r.ok = 0 => r.cls \in Reported)        \* never an internal panic
            /\ phase' = (IF r.er = 1 THEN "failed" ELSE "built")

(* a call on the session object underneath (TokenParser; no panic boundary of its own): every call returns, with a  *)
(* result or a reported error - never a panic -; a total-token stop is reported only when a total was configured     *)
(* (r.mt = 1: the driver never configures one, so the token budget is "unlimited" and must stay so across           *)
(* process_prompt / rollback / reset)                                                                                *)
TCall(r, budget) ==
    /\ r.ev = "TCall"
    /\ r.ms <= budget
    /\ r.st \in Stops
    /\ (r.ok = 0 => r.cls \in Reported)
    /\ (r.st = "MaxTokensTotal" => r.mt = 1)
    /\ UNCHANGED phase

End(r) == r.ev = "End" /\ UNCHANGED phase
=============================================================================
