----------------------------- MODULE GrammarLang -----------------------------
(***************************************************************************)
(* The language of a compiled grammar over TERMINAL IDS (C15): rules        *)
(*   [lhs |-> name, rhs |-> << sym .. >>, cond |-> c, props |-> string]       *)
(* with sym = [k |-> "t", t |-> id] or [k |-> "n", n |-> name, p |-> expr];  *)
(* nonterminals may carry a parameter value; expr / cond are the documented *)
(* functions of docs/parametric.md, evaluated on small values.              *)
(* LangN(G) = all terminal-id sequences of length <= N derivable from the   *)
(* start symbol (least fixpoint over the reachable instances <<name, v>>).  *)
(***************************************************************************)
EXTENDS Naturals, Integers, Sequences, FiniteSets, TLC

W == 24      \* parameter values stay below 2^W in the generated grammars

RECURSIVE Pow2(_)
Pow2(k) == IF k = 0 THEN 1 ELSE 2 * Pow2(k - 1)
Cap(y) == IF y > W THEN W ELSE y
Bit(p, k) == IF k >= W THEN 0 ELSE (p \div Pow2(k)) % 2
Field(p, x, y) == (p \div Pow2(x)) % Pow2(Cap(y) - x)
Ones(x, y) == Pow2(y - x) - 1
RECURSIVE AndBits(_, _, _), OrBits(_, _, _), CountBits(_, _)
AndBits(p, v, k) == IF k = W THEN 0 ELSE (Bit(p, k) * Bit(v, k)) * Pow2(k) + AndBits(p, v, k + 1)
OrBits(p, v, k) == IF k = W THEN 0 ELSE (IF Bit(p, k) + Bit(v, k) > 0 THEN Pow2(k) ELSE 0) + OrBits(p, v, k + 1)
CountBits(x, n) == IF n = 0 THEN 0 ELSE (x % 2) + CountBits(x \div 2, n - 1)

Arg(e, i) == e.a[i]

EvalExpr(e, p) ==
    CASE e.f = "self" -> p
      [] e.f = "none" -> 0
      [] e.f = "const" -> Arg(e, 1).v
      [] e.f = "set_bit" -> IF Bit(p, Arg(e, 1).v) = 1 THEN p ELSE p + Pow2(Arg(e, 1).v)
      [] e.f = "clear_bit" -> IF Bit(p, Arg(e, 1).v) = 0 THEN p ELSE p - Pow2(Arg(e, 1).v)
      [] e.f = "bit_and" -> AndBits(p, Arg(e, 1).v, 0)
      [] e.f = "bit_or" -> OrBits(p, Arg(e, 1).v, 0)
      [] e.f = "incr" -> LET x == Arg(e, 1).r[1]  y == Arg(e, 1).r[2] IN
                         IF y - x <= W /\ Field(p, x, y) = Ones(x, y) THEN p ELSE p + Pow2(x)
      [] e.f = "decr" -> LET x == Arg(e, 1).r[1]  y == Arg(e, 1).r[2] IN
                         IF Field(p, x, y) = 0 THEN p ELSE p - Pow2(x)

RECURSIVE EvalCond(_, _)
EvalCond(c, p) ==
    LET rx == Arg(c, 1).r[1]
        ry == Arg(c, 1).r[2]
        fv == Field(p, rx, ry)
    IN
    CASE c.f = "true" -> TRUE
      [] c.f = "bit_clear" -> Bit(p, Arg(c, 1).v) = 0
      [] c.f = "bit_set" -> Bit(p, Arg(c, 1).v) = 1
      [] c.f = "is_ones" -> ry - rx <= W /\ fv = Ones(rx, ry)
      [] c.f = "is_zeros" -> fv = 0
      [] c.f = "eq" -> fv = Arg(c, 2).v
      [] c.f = "ne" -> fv # Arg(c, 2).v
      [] c.f = "lt" -> fv < Arg(c, 2).v
      [] c.f = "le" -> fv <= Arg(c, 2).v
      [] c.f = "gt" -> fv > Arg(c, 2).v
      [] c.f = "ge" -> fv >= Arg(c, 2).v
      [] c.f = "bit_count_eq" -> CountBits(fv, W) = Arg(c, 2).v
      [] c.f = "bit_count_ne" -> CountBits(fv, W) # Arg(c, 2).v
      [] c.f = "bit_count_lt" -> CountBits(fv, W) < Arg(c, 2).v
      [] c.f = "bit_count_le" -> CountBits(fv, W) <= Arg(c, 2).v
      [] c.f = "bit_count_gt" -> CountBits(fv, W) > Arg(c, 2).v
      [] c.f = "bit_count_ge" -> CountBits(fv, W) >= Arg(c, 2).v
      [] c.f = "and" -> EvalCond(Arg(c, 1), p) /\ EvalCond(Arg(c, 2), p)
      [] c.f = "or" -> EvalCond(Arg(c, 1), p) \/ EvalCond(Arg(c, 2), p)
      [] c.f = "not" -> ~EvalCond(Arg(c, 1), p)

RulesOf(G, n) == {i \in DOMAIN G.rules : G.rules[i].lhs = n}

(* the instance a symbol occurrence stands for, inside an instance with parameter p *)
InstOf(sym, p) == <<sym.n, IF sym.p.f = "none" THEN 0 ELSE EvalExpr(sym.p, p)>>

(* concatenation language of a right-hand side, given languages of instances in M *)
RECURSIVE RhsLang(_, _, _, _, _)
RhsLang(rhs, i, p, M, N) ==
    IF i > Len(rhs) THEN {<<>>}
    ELSE LET rest == RhsLang(rhs, i + 1, p, M, N)
             here == IF rhs[i].k = "t" THEN {<<rhs[i].t>>}
                     ELSE LET inst == InstOf(rhs[i], p) IN IF inst \in DOMAIN M THEN M[inst] ELSE {}
         IN  UNION {{a \o b : b \in {x \in rest : Len(x) <= N - Len(a)}} : a \in {y \in here : Len(y) <= N}}

ActiveRules(G, inst) == {i \in RulesOf(G, inst[1]) : EvalCond(G.rules[i].cond, inst[2])}

Refs(G, inst) ==
    UNION {{InstOf(G.rules[i].rhs[j], inst[2]) : j \in {x \in DOMAIN G.rules[i].rhs : G.rules[i].rhs[x].k = "n"}} :
           i \in ActiveRules(G, inst)}

RECURSIVE LFix(_, _, _, _)
LFix(G, M, N, fuel) ==
    LET dom == DOMAIN M \cup UNION {Refs(G, inst) : inst \in DOMAIN M}
        M2 == [inst \in dom |-> UNION {RhsLang(G.rules[i].rhs, 1, inst[2], M, N) : i \in ActiveRules(G, inst)}]
    IN  IF fuel = 0 \/ (DOMAIN M2 = DOMAIN M /\ M2 = M) THEN M ELSE LFix(G, M2, N, fuel - 1)

LangN(G, N) ==
    LET s == <<G.start, 0>>
        M == LFix(G, (s :> {}), N, 60)
    IN  M[s]

(* symbols that must survive optimisation: those printed with properties *)
Specials(G) == {<<G.rules[i].lhs, G.rules[i].props>> : i \in {j \in DOMAIN G.rules : G.rules[j].props # ""}}
=============================================================================
