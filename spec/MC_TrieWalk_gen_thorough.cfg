SPECIFICATION Spec
CONSTANTS
  Alphabet = {1, 2}
  MaxLen = 2
  MaxTok = 3
  MaxStart = 2
  Emit = TRUE
INVARIANTS EmitReplay
CHECK_DEADLOCK FALSE
