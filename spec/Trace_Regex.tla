--------------------------- MODULE Trace_Regex ---------------------------
(* Trace validation in EXACT mode for constraints whose language is one regular expression    *)
(* (C04; the regex clauses of C01/C03/C13).  The Init event carries the surface regex AST and *)
(* the vocabulary; every recorded call must be a step of EngineRel AND agree with the regex's *)
(* language computed here by derivatives: mask = {t : bytes so far ++ bytes(t) is a prefix of *)
(* a match}, EOS/accepting iff the bytes so far match, commits succeed iff allowed, forced    *)
(* bytes are the unique viable continuation.                                                  *)
EXTENDS EngineRel, RegexSurface, Json, IOUtils

Rec == ndJsonDeserialize(IOEnv.TRACE)

VARIABLES l, ini, rx

vars == <<eng, F, A, l, ini, rx>>

TInit == EInit /\ l = 1 /\ ini = 0 /\ rx = <<>>

StartEpisode ==
    /\ Rec[l].ev = "Init"
    /\ eng' = <<>> /\ F' = <<>> /\ A' = <<>>
    /\ ini' = l
    /\ LET r0 == CompileTop(Rec[l].rx) IN
       LET lv == LiveOf(r0)
           reps == Reps(r0)
           leaves == Leaves(r0)
           sig(b) == {S \in leaves : b \in S}
       IN
       rx' = [r0 |-> r0, live |-> lv, reps |-> reps, empty |-> r0 \notin lv,
              (* byte (index b+1) -> the representative of its class *)
              cls |-> [i \in 1..256 |-> CHOOSE r \in reps : sig(r) = sig(i - 1)]]

Voc(c) == Rec[ini].cfgs[c + 1]
TokBytes(c, t) == Voc(c).tok[t + 1]
IsSpecial(c, t) == LET b == TokBytes(c, t) IN b # <<>> /\ b[1] = 255

RECURSIVE HistBytes(_, _)
HistBytes(c, h) ==
    IF h = <<>> THEN <<>>
    ELSE (IF IsSpecial(c, Head(h)) THEN <<>> ELSE TokBytes(c, Head(h))) \o HistBytes(c, Tail(h))

StateOf(c, h) == DS(rx.r0, HistBytes(c, h))

Allowed(c, st, t) ==
    IF t = Voc(c).eos THEN Nullable(st)
    ELSE /\ ~IsSpecial(c, t)
         /\ TokBytes(c, t) # <<>>
         /\ DS(st, TokBytes(c, t)) \in rx.live

Text(c) == {t \in 0..(Voc(c).n - 1) : ~IsSpecial(c, t) \/ t = Voc(c).eos}
(* same set as {t \in Text(c) : Allowed(c, st, t)}, computed with one derivative per byte class *)
ExactMask(c, st) ==
    LET d1 == [r \in rx.reps |-> D(st, r)]
        nul == Nullable(st)
    IN  {t \in Text(c) :
            IF t = Voc(c).eos THEN nul
            ELSE LET w == TokBytes(c, t) IN
                 w # <<>> /\ DS(d1[rx.cls[w[1] + 1]], Tail(w)) \in rx.live}

CanExtend(st) == \E b \in rx.reps : D(st, b) \in rx.live

(* longest prefix of seq that can be committed one by one from (st); stops after EOS.        *)
(* sc: the caller checks for a stop after every token (try_consume) or not (validate)        *)
RECURSIVE ValidLen(_, _, _, _)
ValidLen(c, st, seq, sc) ==
    IF seq = <<>> THEN 0
    ELSE LET t == Head(seq) IN
         IF t >= Voc(c).n \/ (IsSpecial(c, t) /\ t # Voc(c).eos) THEN 0
         ELSE IF ~Allowed(c, st, t) THEN 0
         ELSE IF t = Voc(c).eos THEN 1
         ELSE LET st2 == DS(st, TokBytes(c, t)) IN
              (* once the text is complete and cannot be extended the engine stops *)
              IF sc /\ Nullable(st2) /\ ~CanExtend(st2) THEN 1
              ELSE 1 + ValidLen(c, st2, Tail(seq), sc)

RECURSIVE Forced(_, _)
Forced(st, b) ==
    IF b = <<>> THEN TRUE
    ELSE /\ ~Nullable(st)
         /\ {x \in Byte : D(st, x) \in rx.live} = {Head(b)}
         /\ Forced(D(st, Head(b)), Tail(b))

Exact(r) ==
    IF r.ev \in {"Init", "New", "Clone"} \/ ~Has(r.e) \/ ~Ok(r.e) THEN TRUE
    ELSE
    LET s == eng[r.e]
        c == s.cfgi
        st == StateOf(c, s.hist)
        txt == Text(c)
    IN
    CASE r.ev \in {"Mask", "MaskOrEos"} /\ r.ok = 1 /\ ~Stopped(r.e) ->
            LET M == SeqToSet(r.set) IN
            IF s.canon = 1 /\ Cardinality(M) = 1 /\ ExactMask(c, st) # M
            THEN (* narrowed to the canonically forced token: it must be allowed and forced *)
                 /\ M \subseteq ExactMask(c, st)
                 /\ \A t \in M : Forced(st, TokBytes(c, t))
            ELSE /\ M \cap txt = ExactMask(c, st)
                 /\ M \subseteq txt     \* a text grammar never allows a special token or the bare marker (C19)
      [] r.ev \in {"Mask", "MaskOrEos"} /\ r.ok = 0 /\ ~Stopped(r.e) /\ r.cls = "empty" ->
            (* the vocabulary has no token for any viable continuation *)
            ExactMask(c, st) = {}
      [] r.ev = "ValidateAll" /\ r.ok = 1 /\ ~Stopped(r.e) ->
            SeqToSet(r.set) \cap txt = ExactMask(c, st)
      [] r.ev = "ConsumeEach" ->
            \A t \in SeqToSet(r.tried) \cap txt : (t \in SeqToSet(r.okset)) = Allowed(c, st, t)
      [] r.ev = "Acc" /\ r.ok = 1 -> (r.v = 1) = Nullable(st)
      [] r.ev = "Consume" /\ ~Stopped(r.e) /\ r.t < s.n /\ (r.t \in txt) /\ ~(r.ok = 0 /\ r.cls = "limit") ->
            /\ (r.ok = 1) = Allowed(c, st, r.t)
            /\ r.ok = 1 /\ r.t # s.eos =>
                 LET st2 == DS(st, TokBytes(c, r.t)) IN
                 (* a stop is only reported where the text is complete and cannot be extended; the  *)
                 (* converse is not asserted: with intersections the engine may notice only at the  *)
                 (* next mask (which is then {EOS}) that no extension exists                         *)
                 (r.st = "NoExtension") => (Nullable(st2) /\ ~CanExtend(st2))
      [] r.ev = "Validate" /\ r.ok = 1 /\ ~Stopped(r.e) -> r.n = ValidLen(c, st, r.seq, FALSE)
      [] r.ev = "TryConsume" /\ r.ok = 1 /\ ~Stopped(r.e) ->
            r.n = ValidLen(c, st, r.seq, TRUE) \/ r.n = ValidLen(c, st, r.seq, FALSE)
      [] r.ev = "FFBytes" -> Forced(st, r.b)
      [] OTHER -> TRUE

(* diagnostics for a rejected event (only evaluated when Exact fails) *)
Explain(r) ==
    IF ~Has(r.e) \/ ~Ok(r.e) THEN TRUE ELSE
    LET s == eng[r.e]
        c == s.cfgi
        st == StateOf(c, s.hist)
    IN PrintT(<<"WHY", r.ev, "hist", s.hist, "bytes", HistBytes(c, s.hist), "expected-mask", ExactMask(c, st),
                "nullable", Nullable(st), "canExtend", CanExtend(st), "state", st>>)

Step ==
    /\ Rec[l].ev # "Init"
    /\ ini > 0
    /\ IF rx.empty
       THEN (* a regex with an empty language is outside the claim (C03 wants productive grammars) *)
            UNCHANGED evars
       ELSE LET r == Rec[l]
                voc == IF r.ev = "New" THEN Rec[ini].cfgs[r.c + 1] ELSE <<>>
            IN ENext(r, voc) /\ (IF Exact(r) THEN TRUE ELSE (IOEnv.EXPLAIN = "1" /\ Explain(r) /\ FALSE))
    /\ UNCHANGED <<ini, rx>>

TNext == l <= Len(Rec) /\ l' = l + 1 /\ (StartEpisode \/ Step)

TSpec == TInit /\ [][TNext]_vars

Accepted ==
    LET d == TLCGet("stats").diameter IN
    IF d - 1 = Len(Rec) THEN TRUE
    ELSE /\ PrintT(<<"REJECT", d>>)
         /\ FALSE
=============================================================================
