SPECIFICATION Spec
INVARIANT OracleOK
POSTCONDITION Whole
CHECK_DEADLOCK FALSE
