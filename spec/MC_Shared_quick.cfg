SPECIFICATION Spec
CONSTANTS Clones = {c1, c2, c3}
 AS = {s1, s2, s3}
 MaxOps = 3
 MaxClones = 3
INVARIANT MutualExclusion
INVARIANT LexerWhereExpected
INVARIANT IdsMeanTheSame
INVARIANT TableInjective
PROPERTY AppendOnly
CHECK_DEADLOCK FALSE
