------------------------------- MODULE Vocab -------------------------------
(* The naive model of vocabulary handling (C16): a vocabulary is a sequence tok of byte      *)
(* strings (token id = index - 1); an acceptor is a partial DFA; the set of tokens reported  *)
(* for an acceptor is found by testing each token separately.                                *)
EXTENDS Naturals, Integers, Sequences, FiniteSets

SeqSet(s) == {s[i] : i \in DOMAIN s}
IsPrefix(p, w) == Len(p) <= Len(w) /\ SubSeq(w, 1, Len(p)) = p

(* dfa = sequence (per state, 1-based = state + 1) of sequences of [b |-> <<bytes>>, t |-> target] *)
Delta(dfa, s, byte) ==
    LET row == dfa[s + 1]
        hits == {i \in DOMAIN row : byte \in SeqSet(row[i].b)}
    IN  IF hits = {} THEN -1 ELSE row[CHOOSE i \in hits : \A j \in hits : i <= j].t

RECURSIVE Run(_, _, _)
Run(dfa, s, w) == IF s < 0 \/ w = <<>> THEN s ELSE Run(dfa, Delta(dfa, s, Head(w)), Tail(w))
Accepts(dfa, s, w) == Run(dfa, s, w) >= 0

(* ids of the tokens that extend `start` and whose remainder the acceptor takes, plus the    *)
(* tokens that are (non-empty) prefixes of `start`                                           *)
NaiveMask(tok, dfa, s0, start) ==
    {t \in 0..(Len(tok) - 1) :
        LET w == tok[t + 1] IN
        /\ w # <<>>
        /\ \/ (IsPrefix(w, start))
           \/ (IsPrefix(start, w) /\ Accepts(dfa, s0, SubSeq(w, Len(start) + 1, Len(w))))}

RECURSIVE Concat(_, _)
Concat(tok, ids) == IF ids = <<>> THEN <<>> ELSE tok[Head(ids) + 1] \o Concat(tok, Tail(ids))

(* greedy tokenisation: at each position the longest token that is a prefix of the rest *)
RECURSIVE GreedyOK(_, _, _)
GreedyOK(tok, text, ids) ==
    IF ids = <<>> THEN text = <<>>
    ELSE LET w == tok[Head(ids) + 1] IN
         /\ w # <<>> /\ IsPrefix(w, text)
         /\ \A t \in 0..(Len(tok) - 1) : (tok[t + 1] # <<>> /\ IsPrefix(tok[t + 1], text)) => Len(tok[t + 1]) <= Len(w)
         /\ GreedyOK(tok, SubSeq(text, Len(w) + 1, Len(text)), Tail(ids))
=============================================================================
