SPECIFICATION Spec
CONSTANTS Depth = 2
 MaxLen = 5
 ExtLen = 3
INVARIANT Agree
CHECK_DEADLOCK FALSE
