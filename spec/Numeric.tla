------------------------------ MODULE Numeric ------------------------------
(***************************************************************************)
(* Exact decimal arithmetic on digit sequences (TLC's integers are 32-bit, *)
(* so literals are never turned into machine numbers).                     *)
(* A decimal is [neg |-> 0/1, i |-> <<digits>>, f |-> <<digits>>]           *)
(* (integer part without leading zeros except the single 0; any fraction).  *)
(* JSON-Schema numeric keywords are given meaning on these:                *)
(*   [type |-> "integer"/"number", min, xmin, max, xmax, mul]  where each    *)
(*   bound is a sequence of 0 or 1 decimals (absent / present).            *)
(***************************************************************************)
EXTENDS Naturals, Integers, Sequences, FiniteSets, TLC

RECURSIVE StripTrailing(_)
StripTrailing(f) == IF f # <<>> /\ f[Len(f)] = 0 THEN StripTrailing(SubSeq(f, 1, Len(f) - 1)) ELSE f
RECURSIVE StripLeading(_)
StripLeading(i) == IF Len(i) > 1 /\ i[1] = 0 THEN StripLeading(Tail(i)) ELSE i

IsZero(d) == StripTrailing(d.f) = <<>> /\ StripLeading(d.i) = <<0>>
IsInt(d) == StripTrailing(d.f) = <<>>

(* lexicographic comparison of equal-length digit sequences: -1, 0, 1 *)
RECURSIVE LexCmp(_, _)
LexCmp(a, b) ==
    IF a = <<>> THEN 0
    ELSE IF a[1] < b[1] THEN -1 ELSE IF a[1] > b[1] THEN 1 ELSE LexCmp(Tail(a), Tail(b))

Pad(f, n) == f \o [k \in 1..(n - Len(f)) |-> 0]

(* compare magnitudes *)
CmpAbs(a, b) ==
    LET ai == StripLeading(a.i)
        bi == StripLeading(b.i)
    IN  IF Len(ai) < Len(bi) THEN -1
        ELSE IF Len(ai) > Len(bi) THEN 1
        ELSE LET c == LexCmp(ai, bi) IN
             IF c # 0 THEN c
             ELSE LET n == IF Len(a.f) > Len(b.f) THEN Len(a.f) ELSE Len(b.f)
                  IN  LexCmp(Pad(a.f, n), Pad(b.f, n))

Sign(d) == IF IsZero(d) THEN 0 ELSE IF d.neg = 1 THEN -1 ELSE 1

Cmp(a, b) ==
    LET sa == Sign(a)
        sb == Sign(b)
    IN  IF sa < sb THEN -1
        ELSE IF sa > sb THEN 1
        ELSE IF sa = 0 THEN 0
        ELSE IF sa = 1 THEN CmpAbs(a, b)
        ELSE CmpAbs(b, a)

Less(a, b) == Cmp(a, b) = -1
Leq(a, b) == Cmp(a, b) <= 0

(* remainder of the digit sequence (as an integer) modulo a small m *)
RECURSIVE DigitsMod(_, _, _)
DigitsMod(ds, m, r) == IF ds = <<>> THEN r ELSE DigitsMod(Tail(ds), m, (r * 10 + Head(ds)) % m)

(* the digits of m.i ++ m.f as a machine integer (small divisors only) *)
RECURSIVE DigitsVal(_, _)
DigitsVal(ds, v) == IF ds = <<>> THEN v ELSE DigitsVal(Tail(ds), v * 10 + Head(ds))

(* lit is an integer multiple of m (m > 0, few digits): scale both by 10^k, k = fraction   *)
(* digits of m after stripping; lit must not have more significant fraction digits than m  *)
MultipleOf(lit, m) ==
    LET mf == StripTrailing(m.f)
        lf == StripTrailing(lit.f)
        k == Len(mf)
        mv == DigitsVal(StripLeading(m.i) \o mf, 0)
    IN  /\ Len(lf) <= k
        /\ DigitsMod(StripLeading(lit.i) \o Pad(lf, k), mv, 0) = 0

Present(b) == b # <<>>

NumAccepts(s, lit) ==
    /\ s.type = "integer" => IsInt(lit)
    /\ Present(s.min) => Leq(s.min[1], lit)
    /\ Present(s.xmin) => Less(s.xmin[1], lit)
    /\ Present(s.max) => Leq(lit, s.max[1])
    /\ Present(s.xmax) => Less(lit, s.xmax[1])
    /\ Present(s.mul) => MultipleOf(lit, s.mul[1])
=============================================================================
