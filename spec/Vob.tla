-------------------------------- MODULE Vob --------------------------------
(* SimpleVob as a plain set of integers below its size. *)
EXTENDS Naturals, Integers, FiniteSets

Mk(size, S) == [size |-> size, set |-> S]
VAllow(v, i) == Mk(v.size, v.set \cup {i})
VDisallow(v, i) == Mk(v.size, v.set \ {i})
VRange(v, i, j) == Mk(v.size, v.set \cup (i..j))
VNegate(v) == Mk(v.size, (0..(v.size - 1)) \ v.set)
VOr(a, b) == Mk(a.size, a.set \cup b.set)
VAnd(a, b) == Mk(a.size, a.set \cap b.set)
VSub(a, b) == Mk(a.size, a.set \ b.set)
VOrMinus(a, b, m) == Mk(a.size, a.set \cup (b.set \ m.set))
VSetAll(v, on) == Mk(v.size, IF on THEN 0..(v.size - 1) ELSE {})
First(S) == IF S = {} THEN -1 ELSE CHOOSE x \in S : \A y \in S : x <= y
WellFormed(v) == \A x \in v.set : x < v.size
=============================================================================
