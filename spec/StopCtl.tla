------------------------------ MODULE StopCtl ------------------------------
(***************************************************************************)
(* The stop-sequence controller (C18): tokens are committed one by one;    *)
(* over the whole run the controller returns exactly the decoded text of   *)
(* the committed tokens up to, but excluding, the first occurrence of a    *)
(* stop token, stop string or stop-regex match; it never splits a UTF-8    *)
(* character and returns nothing once stopped.  How much text it holds     *)
(* back before that is left open (a prefix is all that is required).       *)
(* Special (non-stop) tokens contribute their name and restart matching;   *)
(* a stop sequence therefore never spans one.                              *)
(***************************************************************************)
EXTENDS RegexSurface

IsPrefixOf(p, w) == Len(p) <= Len(w) /\ SubSeq(w, 1, Len(p)) = p

(* well-formed UTF-8 (complete characters only) *)
Utf8Text == Star(Utf8Scalar)
WholeChars(b) == Matches(Utf8Text, b)

(* all (s, e) with seg[s..e] matching the stop expression, 1 <= s <= e + 1 (empty matches excluded) *)
MatchesIn(Rx, seg) ==
    {p \in (1..Len(seg)) \X (1..Len(seg)) : p[1] <= p[2] /\ Matches(Rx, SubSeq(seg, p[1], p[2]))}

EarliestEnd(ms) == CHOOSE e \in {p[2] : p \in ms} : \A q \in ms : e <= q[2]
=============================================================================
