----------------------------- MODULE Tokenizers -----------------------------
(* What the bytes of a vocabulary token are, given its name in a tokenizer description:       *)
(*  - byte-level (GPT-2) names: every character stands for one byte; printable Latin-1        *)
(*    characters stand for themselves, the other 68 bytes are numbered from U+0100 upward in  *)
(*    byte order;                                                                              *)
(*  - byte-fallback names: UTF-8 text with the space replacement character standing for ' ',  *)
(*    and <0xNN> standing for the single byte NN;                                              *)
(*  - special tokens: the marker byte 0xFF followed by the UTF-8 name;                         *)
(*  - tiktoken ranks: the bytes themselves; unused ids become marker tokens <[id]>.            *)
EXTENDS RegexSurface    \* for Encode / EncodeAll (UTF-8)

SelfMapped(b) == (b >= 33 /\ b <= 126) \/ (b >= 161 /\ b <= 172) \/ (b >= 174 /\ b <= 255)
ByteToCp(b) == IF SelfMapped(b) THEN b ELSE 256 + Cardinality({x \in 0..(b - 1) : ~SelfMapped(x)})
CpToByte(cp) ==
    IF cp < 256 THEN (IF SelfMapped(cp) THEN cp ELSE -1)
    ELSE LET c == {b \in 0..255 : ~SelfMapped(b) /\ ByteToCp(b) = cp} IN IF c = {} THEN -1 ELSE CHOOSE b \in c : TRUE

HexV(c) == IF c >= 48 /\ c <= 57 THEN c - 48 ELSE IF c >= 97 /\ c <= 102 THEN c - 87 ELSE IF c >= 65 /\ c <= 70 THEN c - 55 ELSE -1
IsByteName(n) == Len(n) = 6 /\ n[1] = 60 /\ n[2] = 48 /\ n[3] = 120 /\ n[6] = 62 /\ HexV(n[4]) >= 0 /\ HexV(n[5]) >= 0

RECURSIVE DigitsOf(_)
DigitsOf(n) == IF n < 10 THEN <<48 + n>> ELSE DigitsOf(n \div 10) \o <<48 + (n % 10)>>

ExpectedBytes(kind, mode, name, id, isSpecial, space) ==
    IF isSpecial THEN <<255>> \o EncodeAll(name)
    ELSE IF kind = "tiktoken" THEN (IF name = <<>> THEN <<255, 60, 91>> \o DigitsOf(id) \o <<93, 62>> ELSE name)
    ELSE IF name = <<>> THEN <<>>
    ELSE IF mode = "byte_level" THEN [i \in DOMAIN name |-> CpToByte(name[i])]
    ELSE IF IsByteName(name) THEN <<HexV(name[4]) * 16 + HexV(name[5])>>
    ELSE EncodeAll([i \in DOMAIN name |-> IF name[i] = space THEN 32 ELSE name[i]])
=============================================================================
