SPECIFICATION Spec
INVARIANT Refines
INVARIANT StateRefines
INVARIANT Structure
INVARIANT CacheOK
INVARIANT AccCacheOK
INVARIANT Emit
CHECK_DEADLOCK FALSE
