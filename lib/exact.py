"""Exact-mode scenarios: the specification knows the language (regex / CFG) and recomputes every
mask, verdict and forced byte (spec/Trace_Regex.tla, spec/Trace_Cfg.tla)."""
import json
import random

from . import core, rel, rxgen, vocabs

W_EXACT = {"mask": 85, "fft_side": 100, "validate": 40, "validate_all": 25, "acc": 60, "ffb": 35, "consume_each": 25,
           "each_max": 400, "commit_try": 15, "commit_batch": 10, "rollback": 8, "bad_token": 40, "status": 10,
           "after_stop": 30, "shadow_after_rollback": 30}


def exact_vocab(rng, alpha_bytes, canonical=0, n_multi=24):
    ab = sorted(set(alpha_bytes) | {122})
    multi = set()
    for _ in range(n_multi):
        w = tuple(rng.choice(ab) for _ in range(rng.randint(2, 3)))
        multi.add(w)
    # whole non-ASCII characters and their pieces
    for ch in ["é", "€", "😀", "K", "ſ"]:
        b = ch.encode()
        if all(x in ab for x in b) and len(b) > 1:
            multi.add(tuple(b))
            multi.add(tuple(b[:2])) if len(b) > 2 else None
            multi.add((ab[0],) + tuple(b[:1]))
    multi = sorted(m for m in multi if m)
    return vocabs.small_exact(ab, multi, canonical)


def add_dfs(ep, n_single, rng, budget=900):
    """turn the episode into an exhaustive one: every string over the single-byte tokens (ids 0..n_single-1) that the
    masks allow, up to the largest depth with n^depth <= 4 * budget (at most 10), mask + accepting flag at every node"""
    depth = 1
    while depth < 10 and n_single ** (depth + 1) <= 4 * budget:
        depth += 1
    ep["script"] = [["dfs", depth, list(range(n_single)), budget]]
    ep["gid"] += ":dfs"
    return ep


W_LIGHT = {"mask": 100, "fft_side": 100, "validate": 20, "acc": 100, "ffb": 25, "commit_try": 10, "commit_batch": 10,
           "rollback": 5, "status": 10, "after_stop": 20}


def regex_job(prop, seed, n, sizes=(2, 9), byte_complete=False, dfs_share=0.2):
    rng = random.Random(f"{prop}-rx-{seed}")
    eps = []
    for i in range(n):
        alpha = rng.sample(rxgen.ALPHA, rng.randint(3, 7))
        size = rng.randint(*sizes)
        x = rng.random()
        if x < 0.15:
            ast = rxgen.substr_node(rng)
            if rng.random() < 0.4:
                ast = {"k": "cat", "a": [rxgen.r_lit(rng, [120, 121], 1), ast, rxgen.r_lit(rng, [120, 121], 1)]}
            entry = "lark_term"
        elif x < 0.27:
            # an intersection (possibly empty on some branch) under an alternation
            ast = {"k": "alt", "a": [{"k": "and", "a": [rxgen.r_node(rng, alpha, max(2, size // 2)),
                                                        rxgen.r_node(rng, alpha, max(2, size // 2))]},
                                     rxgen.r_node(rng, alpha, 2)]}
            entry = "lark_term"
        elif x < 0.4:
            ast = rxgen.lk_node(rng, rng.randint(3, 8))
            entry = "lark_term"
        elif x < 0.56:
            ast = rxgen.t_node(rng, alpha, size)
            entry = "lark_term"
        else:
            ast = rxgen.r_node(rng, alpha, size)
            entry = rng.choice(["regex", "lark_rx", "lark_term"])
        if rxgen.has_not(ast) and rng.random() < 0.9:
            # the documented way to keep `~` inside valid UTF-8 (and away from the 0xFF marker of
            # special tokens, see known finding C19/not-allows-specials)
            ast = {"k": "and", "a": [{"k": "rep", "a": {"k": "dot", "s": 1}, "m": 0, "n": -1}, ast]}
        elif rxgen.has_not(ast):
            continue
        g = rxgen.grammar_for(ast, entry)
        ab = rxgen.alphabet_bytes(ast)
        if rxgen.has_icase(ast):
            for c in list(ab):
                if 97 <= c <= 122:
                    ab.add(c - 32)
                elif 65 <= c <= 90:
                    ab.add(c + 32)
            ab.update("K".encode())
            ab.update("ſ".encode())
        canonical = 1 if rng.random() < 0.3 else 0
        if rng.random() < 0.2 or byte_complete:
            voc = vocabs.byte(canonical)
        else:
            voc = exact_vocab(rng, ab, canonical)
        eps.append({"gid": f"rx{i}:{entry}", "mode": prop, "seed": rng.randrange(1 << 30), "steps": rng.randint(6, 16),
                    "gram": g, "cfgs": [{"vocab": voc, "vid": 0, "slices": []}],
                    "w": dict(W_LIGHT if byte_complete else W_EXACT),
                    "eos_pct": rng.choice([10, 25]), "log_vocab": 1, "init_extra": {"rx": ast, "entry": entry}})
        if voc["kind"] == "list" and len(ab | {122}) <= 6 and rng.random() < dfs_share:
            add_dfs(eps[-1], len(ab | {122}), rng)
    return {"episodes": eps}


def cfg_job(prop, seed, n, hand_share=0.2, byte_complete=False, dfs_share=0.2, ign_share=0.2):
    from . import cfggen
    rng = random.Random(f"{prop}-cfg-{seed}")
    eps = []
    tries = 0
    while len(eps) < n and tries < n * 30:
        tries += 1
        if rng.random() < hand_share:
            name, g = rng.choice(cfggen.HAND)
        else:
            g = cfggen.rand_grammar(rng)
            name = f"g{tries}"
            if not cfggen.is_reduced(g):
                continue
        if rng.random() < ign_share and not byte_complete:
            # %ignore of a byte class that no terminal uses
            used = set(cfggen.alphabet(g))
            ign = [b for b in rng.choice([[32], [32, 10], [9, 32]]) if b not in used]
            if ign:
                g = dict(g, ign=ign)
                name += ":ign"
        text = cfggen.lark_text(g)
        canonical = 1 if rng.random() < 0.3 else 0
        ab = sorted(set(cfggen.alphabet(g)) | {122})
        multi = set(cfggen.lang_tokens(g, rng, n_multi=rng.choice([16, 30, 50]), maxlen=rng.choice([3, 4, 5])))
        for _ in range(8):
            multi.add(tuple(rng.choice(ab) for _ in range(rng.randint(2, 3))))
        if rng.random() < 0.3:
            multi |= {m for m in list(multi)[:3]}  # (duplicates are added below)
        multi = sorted(multi)
        dups = [list(m) for m in multi[:2]] if rng.random() < 0.3 else []
        if byte_complete:
            ab = list(range(255))
        voc = vocabs.small_exact(ab, [list(m) for m in multi] + dups, canonical)
        w = dict(W_LIGHT if byte_complete else W_EXACT)
        eps.append({"gid": f"cfg:{name}", "mode": prop, "seed": rng.randrange(1 << 30), "steps": rng.randint(5, 12),
                    "gram": {"kind": "lark", "text": text}, "cfgs": [{"vocab": voc, "vid": 0, "slices": []}], "w": w,
                    "eos_pct": rng.choice([10, 25]), "log_vocab": 1, "init_extra": {"cfg": g}})
        if not byte_complete and len(ab) <= 7 and rng.random() < dfs_share:
            add_dfs(eps[-1], len(ab), rng)
    return {"episodes": eps}


def pcfg_job(prop, seed, n, dfs_share=0.25):
    """parametric Lark grammars (docs/parametric.md shapes) validated by spec/Trace_CfgP.tla"""
    from . import paramgen
    rng = random.Random(f"{prop}-pcfg-{seed}")
    eps = []
    for i in range(n):
        g = paramgen.rand_grammar(rng)
        text = paramgen.lark_text(g, rng)
        canonical = 1 if rng.random() < 0.3 else 0
        ab = sorted(set(paramgen.alphabet(g)) | {122})
        multi = set(paramgen.lang_tokens(g, rng, n_multi=rng.choice([10, 20, 30]), maxlen=rng.choice([3, 4, 5])))
        for _ in range(5):
            multi.add(tuple(rng.choice(ab) for _ in range(rng.randint(2, 3))))
        multi = sorted(multi)
        voc = vocabs.small_exact(ab, [list(m) for m in multi], canonical)
        eps.append({"gid": f"pcfg:{i}", "mode": prop, "seed": rng.randrange(1 << 30), "steps": rng.randint(6, 16),
                    "gram": {"kind": "lark", "text": text}, "cfgs": [{"vocab": voc, "vid": 0, "slices": []}], "w": dict(W_EXACT),
                    "eos_pct": rng.choice([10, 25]), "log_vocab": 1, "init_extra": {"pcfg": paramgen.spec_json(g)}})
        if len(ab) <= 7 and rng.random() < dfs_share:
            add_dfs(eps[-1], len(ab), rng, budget=500)
    return {"episodes": eps}


def pnull_job(prop, seed, n, deep=False):
    """the family of conditional-nullability chains (paramgen.nullable_family): n members drawn at random (all of them when
    n is None); only the initial mask and accepting flag and the state after each first byte are looked at"""
    from . import paramgen
    rng = random.Random(f"{prop}-pnull-{seed}")
    members = [g for k in (2, 3, 4) for g in paramgen.nullable_family(k)]
    if n is not None and n < len(members):
        members = rng.sample(members, n)
    eps = []
    for i, g in enumerate(members):
        ab = sorted(set(paramgen.alphabet(g)) | {122})
        voc = vocabs.small_exact(ab, [], 0)
        eps.append({"gid": f"pnull:{i}", "mode": prop, "seed": 1, "steps": 0, "gram": {"kind": "lark", "text": paramgen.lark_text(g)},
                    "cfgs": [{"vocab": voc, "vid": 0, "slices": []}], "w": {}, "log_vocab": 1,
                    "init_extra": {"pcfg": paramgen.spec_json(g)}, "script": [["dfs", 2, list(range(len(ab))), 40]] if deep else [["mask", 0], ["acc", 0]]})
    return {"episodes": eps}


W_TOK = {"mask": 100, "fft_side": 100, "acc": 80, "status": 10, "rollback": 8, "commit_try": 0, "commit_batch": 0,
         "bad_token": 60, "clone_mask": 10}


def tok_job(prop, seed, n):
    from . import tokgen
    rng = random.Random(f"{prop}-tok-{seed}")
    eps = []
    tries = 0
    while len(eps) < n and tries < n * 40:
        tries += 1
        voc, fs = tokgen.make_vocab(rng, list(b"abxy<>|[]3"), canonical=1 if rng.random() < 0.5 else 0)
        g = tokgen.rand_grammar(rng, voc, fs)
        if not tokgen.reduced(g):
            continue
        text = tokgen.lark_text(g)
        w = dict(W_TOK)
        # C19 is not about rollback; rolling back over token-identity tokens has recorded defects of its own
        # (known finding C12/rollback-over-forced-id-token, and the EOS-as-ordinary-token corner)
        w["rollback"] = 0
        eps.append({"gid": f"tok{tries}", "mode": prop, "seed": rng.randrange(1 << 30), "steps": rng.randint(5, 12),
                    "gram": {"kind": "lark", "text": text}, "cfgs": [{"vocab": voc, "vid": 0, "slices": []}],
                    "w": w, "eos_pct": 15, "log_vocab": 1, "init_extra": {"cfg": tokgen.strip_text(g)},
                    "tok_probes": tokgen.tok_probes(voc, fs) if len(eps) % 5 == 0 else []})
    return {"episodes": eps}
