"""Surface regex ASTs: random generation, printing as llguidance input (regex-crate syntax, Lark
terminal expressions) and as the JSON the TLA+ side reads (spec/RegexSurface.tla)."""
import json

ALPHA = [ord(c) for c in "abcks01 -\"\n"] + [ord("K"), ord("S"), 233, 8364, 128512]
ASCII_LETTERS = [ord(c) for c in "abcksKS"]


# ---------------------------------------------------------------- generation
def r_lit(rng, alpha, maxlen=3):
    return {"k": "lit", "s": [rng.choice(alpha) for _ in range(rng.randint(1, maxlen))]}


def r_cls(rng, alpha):
    k = rng.randint(1, min(4, len(alpha)))
    return {"k": "cls", "neg": 1 if rng.random() < 0.25 else 0, "cps": sorted(set(rng.sample(alpha, k)))}


def r_node(rng, alpha, size, icase_ok=True):
    """regex-level node (what can be written inside /.../)"""
    if size <= 1:
        x = rng.random()
        if x < 0.5:
            return r_lit(rng, alpha)
        if x < 0.85:
            return r_cls(rng, alpha)
        return {"k": "dot", "s": 1 if rng.random() < 0.4 else 0}
    x = rng.random()
    if x < 0.35:
        n = rng.randint(2, 3)
        return {"k": "cat", "a": [r_node(rng, alpha, max(1, (size - 1) // n), icase_ok) for _ in range(n)]}
    if x < 0.6:
        n = rng.randint(2, 3)
        return {"k": "alt", "a": [r_node(rng, alpha, max(1, (size - 1) // n), icase_ok) for _ in range(n)]}
    if x < 0.92:
        m = rng.choice([0, 0, 1, 1, 2, 3])
        n = rng.choice([-1, -1, m, m + 1, m + 2, 4]) if True else -1
        if n != -1 and n < m:
            n = m
        if n == 0:
            n = 1
        return {"k": "rep", "a": r_node(rng, alpha, size - 1, icase_ok), "m": m, "n": n}
    if icase_ok:
        return {"k": "icase", "a": r_node(rng, [c for c in alpha if c < 128] or alpha, size - 1, False)}
    return r_lit(rng, alpha)


def t_node(rng, alpha, size, depth=0):
    """terminal-level node (Lark terminal expression: may use & and ~ and %regex substring)"""
    if size <= 2 or depth > 2:
        x = rng.random()
        if x < 0.08:
            n = rng.randint(2, 4)
            return {"k": "substr", "chunks": [[rng.choice(alpha) for _ in range(rng.randint(1, 2))] for _ in range(n)]}
        return r_node(rng, alpha, max(1, size))
    x = rng.random()
    if x < 0.3:
        n = 2
        return {"k": "and", "a": [t_node(rng, alpha, size // 2, depth + 1) for _ in range(n)]}
    if x < 0.5:
        return {"k": "not", "a": t_node(rng, alpha, size - 1, depth + 1)}
    if x < 0.7:
        return {"k": "cat", "a": [t_node(rng, alpha, size // 2, depth + 1) for _ in range(2)]}
    if x < 0.85:
        return {"k": "alt", "a": [t_node(rng, alpha, size // 2, depth + 1) for _ in range(2)]}
    m = rng.choice([0, 1, 2])
    n = rng.choice([-1, m + 1, m + 2])
    return {"k": "rep", "a": t_node(rng, alpha, size - 1, depth + 1), "m": m, "n": n}


def lk_node(rng, size, depth=0):
    """Lark-LEVEL terminal expression (marked "lk": printed with Lark's own operators instead of one /regex/): string
    literals with the `i` flag, /regex/i, character ranges "a".."f", composed with sequence / | / repetition at the
    terminal level - the flag of one literal must not leak into its neighbours (lark/compiler.rs mk_regex)"""
    if size <= 1 or depth > 2:
        x = rng.random()
        letters = [ord(c) for c in "abcdefks"]
        if x < 0.3:
            return {"k": "icase", "lk": 1, "a": {"k": "lit", "s": [rng.choice(letters + [48, 120]) for _ in range(rng.randint(1, 2))]}}
        if x < 0.42:
            return {"k": "icase", "lk": 1, "a": r_node(rng, letters[:4] + [48], 2, False)}
        if x < 0.72:
            base = rng.choice([97, 97, 98, 65, 48])
            n = rng.randint(2, 4)
            return {"k": "cls", "neg": 0, "lk": 1, "cps": list(range(base, base + n))}
        if x < 0.9:
            return {"k": "lit", "s": [rng.choice(letters + [65, 66, 48, 45]) for _ in range(rng.randint(1, 2))]}
        return r_node(rng, letters[:3] + [65, 48], 2, True)
    x = rng.random()
    if x < 0.45:
        return {"k": "cat", "lk": 1, "a": [lk_node(rng, size // 2, depth + 1) for _ in range(rng.randint(2, 3))]}
    if x < 0.7:
        return {"k": "alt", "lk": 1, "a": [lk_node(rng, size // 2, depth + 1) for _ in range(2)]}
    m = rng.choice([0, 1, 1, 2])
    return {"k": "rep", "lk": 1, "a": lk_node(rng, size - 1, depth + 1), "m": m, "n": rng.choice([-1, m + 1, m + 2])}


def substr_node(rng):
    """%regex substring over a tiny alphabet so that chunks repeat (the suffix automaton then
    needs its clone states)"""
    syms = rng.choice([[97, 98], [97, 98, 99], [97, 233], [48, 49, 32]])
    if rng.random() < 0.5:
        chunks = [[rng.choice(syms)] for _ in range(rng.randint(3, 9))]
    else:
        chunks = [[rng.choice(syms) for _ in range(rng.randint(1, 2))] for _ in range(rng.randint(3, 7))]
    return {"k": "substr", "chunks": chunks}


def is_rlevel(x):
    k = x["k"]
    if k in ("and", "not", "substr"):
        return False
    if k in ("cat", "alt"):
        return all(is_rlevel(a) for a in x["a"])
    if k in ("rep", "icase"):
        return is_rlevel(x["a"])
    return True


# ---------------------------------------------------------------- printing
_RX_META = set(r"\.+*?()|[]{}^$#&-~/")


def rx_char(cp, in_class=False):
    if cp == 10:
        return r"\n"
    if cp == 9:
        return r"\t"
    ch = chr(cp)
    if cp < 128 and (ch in _RX_META or (in_class and ch in "[]^-&~\\")):
        return "\\" + ch
    return ch


def rx_text(x):
    k = x["k"]
    if k == "lit":
        return "".join(rx_char(c) for c in x["s"])
    if k == "cls":
        return "[" + ("^" if x["neg"] else "") + "".join(rx_char(c, True) for c in x["cps"]) + "]"
    if k == "dot":
        return "(?s:.)" if x["s"] else "."
    if k == "cat":
        return "".join("(?:" + rx_text(a) + ")" if a["k"] == "alt" else rx_text(a) for a in x["a"])
    if k == "alt":
        return "|".join(rx_text(a) for a in x["a"])
    if k == "rep":
        inner = rx_text(x["a"])
        if not (x["a"]["k"] in ("cls", "dot") or (x["a"]["k"] == "lit" and len(x["a"]["s"]) == 1)):
            inner = "(?:" + inner + ")"
        m, n = x["m"], x["n"]
        if (m, n) == (0, -1):
            q = "*"
        elif (m, n) == (1, -1):
            q = "+"
        elif (m, n) == (0, 1):
            q = "?"
        elif n == -1:
            q = "{%d,}" % m
        elif m == n:
            q = "{%d}" % m
        else:
            q = "{%d,%d}" % (m, n)
        return inner + q
    if k == "icase":
        return "(?i:" + rx_text(x["a"]) + ")"
    raise ValueError(k)


def lark_str(s):
    out = '"'
    for cp in s:
        ch = chr(cp)
        if ch == '"':
            out += '\\"'
        elif ch == "\\":
            out += "\\\\"
        elif ch == "\n":
            out += "\\n"
        else:
            out += ch
    return out + '"'


def lark_term(x):
    """Lark terminal expression (fully parenthesised where precedence matters)."""
    k = x["k"]
    if x.get("lk") and k == "icase":
        # the `i` flag of Lark string and regex literals
        return lark_str(x["a"]["s"]) + "i" if x["a"]["k"] == "lit" else "/" + rx_text(x["a"]) + "/i"
    if x.get("lk") and k == "cls":
        return lark_str([x["cps"][0]]) + ".." + lark_str([x["cps"][-1]])
    if is_rlevel(x) and not x.get("lk"):
        if k == "lit":
            return lark_str(x["s"])
        return "/" + rx_text(x) + "/"
    if k == "substr":
        chunks = ["".join(chr(c) for c in ch) for ch in x["chunks"]]
        return "%regex " + json.dumps({"substring_chunks": chunks}, ensure_ascii=False)
    if k == "and":
        return "(" + " & ".join(lark_term(a) for a in x["a"]) + ")"
    if k == "not":
        # `~` binds tighter than a postfix operator: `~(x)*` is `(~(x))*`, so the operand gets its own parentheses
        return "(~(" + lark_term(x["a"]) + "))"
    if k == "cat":
        return "(" + " ".join(lark_term(a) for a in x["a"]) + ")"
    if k == "alt":
        return "(" + " | ".join(lark_term(a) for a in x["a"]) + ")"
    if k == "rep":
        m, n = x["m"], x["n"]
        inner = "(" + lark_term(x["a"]) + ")"
        if (m, n) == (0, -1):
            return inner + "*"
        if (m, n) == (1, -1):
            return inner + "+"
        if (m, n) == (0, 1):
            return inner + "?"
        if n == -1:
            return inner + "{%d,}" % m
        return inner + "{%d,%d}" % (m, n)
    raise ValueError(k)


def grammar_for(x, entry):
    """entry: 'regex' (TopLevelGrammar::from_regex), 'lark_rx' (start: /../), 'lark_term' (T: expr)"""
    if entry == "regex":
        return {"kind": "regex", "text": rx_text(x)}
    if entry == "lark_rx":
        return {"kind": "lark", "text": "start: /" + rx_text(x) + "/\n"}
    return {"kind": "lark", "text": "start: T\nT: " + lark_term(x) + "\n"}


def alphabet_bytes(x, acc=None):
    """bytes that occur in literals/classes of the AST (for vocabulary construction)"""
    acc = set() if acc is None else acc
    k = x["k"]
    if k == "lit":
        for c in x["s"]:
            acc.update(chr(c).encode())
    elif k == "cls":
        for c in x["cps"]:
            acc.update(chr(c).encode())
    elif k == "substr":
        for ch in x["chunks"]:
            for c in ch:
                acc.update(chr(c).encode())
    elif k in ("cat", "alt", "and"):
        for a in x["a"]:
            alphabet_bytes(a, acc)
    elif k in ("rep", "icase", "not"):
        alphabet_bytes(x["a"], acc)
    return acc


def has_icase(x):
    k = x["k"]
    if k == "icase":
        return True
    if k in ("cat", "alt", "and"):
        return any(has_icase(a) for a in x["a"])
    if k in ("rep", "not"):
        return has_icase(x["a"])
    return False


def has_not(x):
    k = x["k"]
    if k == "not":
        return True
    if k in ("cat", "alt", "and"):
        return any(has_not(a) for a in x["a"])
    if k in ("rep", "icase"):
        return has_not(x["a"])
    return False
