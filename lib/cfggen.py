"""EBNF grammars of the C05 fragment (terminals: fixed literals and single-byte classes whose
first bytes are pairwise different): random generation, Lark text, JSON for spec/Cfg.tla."""
import json

TERMINAL_POOLS = [
    # each pool: literals/classes with pairwise disjoint first bytes
    [("lit", "a"), ("lit", "bc"), ("lit", "d"), ("cls", "xy"), ("lit", "("), ("lit", ")"), ("lit", ","), ("cls", "012")],
    [("lit", "ab"), ("lit", "cd"), ("lit", "e"), ("cls", "pq"), ("lit", "["), ("lit", "]"), ("lit", "+"), ("lit", "é")],
    [("lit", "if"), ("lit", "then"), ("lit", "else"), ("cls", "xyz"), ("lit", ";"), ("lit", "="), ("cls", "01"), ("lit", " ")],
    [("lit", "a"), ("lit", "b"), ("lit", "c")],
    [("lit", "€x"), ("lit", "😀"), ("cls", "ab"), ("lit", "-"), ("lit", "zz")],
]


def term_item(t):
    kind, s = t
    if kind == "lit":
        return {"k": "lit", "b": list(s.encode())}
    return {"k": "cls", "s": sorted(s.encode())}


def rand_item(rng, nts, terms, depth):
    x = rng.random()
    if depth >= 2 or x < 0.45:
        if rng.random() < 0.45:
            return {"k": "ref", "n": rng.choice(nts)}
        return term_item(rng.choice(terms))
    if x < 0.55:
        return {"k": "opt", "a": rand_item(rng, nts, terms, depth + 1)}
    if x < 0.65:
        return {"k": "star", "a": rand_item(rng, nts, terms, depth + 1)}
    if x < 0.73:
        return {"k": "plus", "a": rand_item(rng, nts, terms, depth + 1)}
    if x < 0.85:
        m = rng.choice([0, 1, 2, 3])
        n = rng.choice([-1, m, m + 1, m + 2, m + 3])
        if n == 0:
            n = 1
        return {"k": "rep", "a": rand_item(rng, nts, terms, depth + 1), "m": m, "n": n}
    na = rng.randint(1, 3)
    return {"k": "group", "alts": [[rand_item(rng, nts, terms, depth + 1) for _ in range(rng.randint(1, 2))]
                                   for _ in range(na)]}


def rand_grammar(rng, max_nts=4):
    terms = rng.choice(TERMINAL_POOLS)
    terms = rng.sample(terms, min(len(terms), rng.randint(2, 5)))
    n = rng.randint(1, max_nts)
    nts = ["start"] + [f"n{i}" for i in range(1, n)]
    rules = []
    for nt in nts:
        alts = []
        for _ in range(rng.randint(1, 3)):
            ln = rng.choice([0, 1, 1, 2, 2, 3]) if nt != "start" else rng.choice([1, 2, 2, 3])
            alts.append([rand_item(rng, nts, terms, 0) for _ in range(ln)])
        rules.append({"lhs": nt, "alts": alts})
    return {"start": "start", "rules": rules}


# ---- reducedness (mirrors Cfg.Reduced on the surface form, conservatively) ----
def _refs(item, acc):
    k = item["k"]
    if k == "ref":
        acc.add(item["n"])
    elif k in ("opt", "star", "plus", "rep"):
        _refs(item["a"], acc)
    elif k == "group":
        for alt in item["alts"]:
            for it in alt:
                _refs(it, acc)


def _item_productive(item, prod):
    k = item["k"]
    if k == "ref":
        return item["n"] in prod
    if k in ("lit", "cls"):
        return True
    if k in ("opt", "star"):
        return True
    if k == "plus":
        return _item_productive(item["a"], prod)
    if k == "rep":
        return item["m"] == 0 or _item_productive(item["a"], prod)
    if k == "group":
        return any(all(_item_productive(it, prod) for it in alt) for alt in item["alts"])
    return False


def _strict_ok(item, prod):
    """every sub-item must be productive too (otherwise desugared helper nonterminals are not)"""
    k = item["k"]
    if k == "ref":
        return item["n"] in prod
    if k in ("lit", "cls"):
        return True
    if k in ("opt", "star", "plus", "rep"):
        return _strict_ok(item["a"], prod)
    if k == "group":
        return all(all(_strict_ok(it, prod) for it in alt) for alt in item["alts"])
    return False


def is_reduced(g):
    rules = {r["lhs"]: r["alts"] for r in g["rules"]}
    prod = set()
    changed = True
    while changed:
        changed = False
        for nt, alts in rules.items():
            if nt not in prod and any(all(_item_productive(it, prod) for it in alt) for alt in alts):
                prod.add(nt)
                changed = True
    reach = {g["start"]}
    todo = [g["start"]]
    while todo:
        nt = todo.pop()
        acc = set()
        for alt in rules.get(nt, []):
            for it in alt:
                _refs(it, acc)
        for x in acc:
            if x not in reach:
                reach.add(x)
                todo.append(x)
    if not reach <= set(rules) or not reach <= prod:
        return False
    # every alternative of every reachable rule must be productive in all its parts
    for nt in reach:
        for alt in rules[nt]:
            for it in alt:
                if not _strict_ok(it, prod):
                    return False
    # drop unreachable rules from the text? keep them only if productive
    return all(nt in prod for nt in rules)


# ---- printing ----
def lark_lit(bs):
    s = bytes(bs).decode("utf-8")
    return '"' + s.replace("\\", "\\\\").replace('"', '\\"') + '"'


def lark_item(it):
    k = it["k"]
    if k == "ref":
        return it["n"]
    if k == "lit":
        return lark_lit(it["b"])
    if k == "cls":
        body = "".join(("\\" + chr(c)) if chr(c) in "[]^-\\/" else chr(c) for c in it["s"])
        return "/[" + body + "]/"
    if k == "opt":
        return "(" + lark_item(it["a"]) + ")?"
    if k == "star":
        return "(" + lark_item(it["a"]) + ")*"
    if k == "plus":
        return "(" + lark_item(it["a"]) + ")+"
    if k == "rep":
        # a repeated rule reference is written bare (`a{2,4}`): the element is then the rule's own node, shared by every
        # repetition of it in the grammar
        inner = lark_item(it["a"]) if it["a"]["k"] == "ref" else "(" + lark_item(it["a"]) + ")"
        if it["n"] < 0:
            return inner + "{%d,}" % it["m"]
        return inner + "{%d,%d}" % (it["m"], it["n"])
    if k == "group":
        return "(" + " | ".join(" ".join(lark_item(x) for x in alt) for alt in it["alts"]) + ")"
    raise ValueError(k)


def lark_text(g):
    lines = []
    for r in g["rules"]:
        alts = [" ".join(lark_item(x) for x in alt) for alt in r["alts"]]
        lines.append(r["lhs"] + ": " + " | ".join(alts))
    if g.get("ign"):
        cls = "".join({32: " ", 10: "\\n", 9: "\\t"}.get(b, chr(b)) for b in g["ign"])
        lines.append("%ignore /[" + cls + "]+/")
    return "\n".join(lines) + "\n"


def alphabet(g):
    acc = set()

    def walk(it):
        k = it["k"]
        if k == "lit":
            acc.update(it["b"])
        elif k == "cls":
            acc.update(it["s"])
        elif k in ("opt", "star", "plus", "rep"):
            walk(it["a"])
        elif k == "group":
            for alt in it["alts"]:
                for x in alt:
                    walk(x)
    acc.update(g.get("ign", []))
    for r in g["rules"]:
        for alt in r["alts"]:
            for it in alt:
                walk(it)
    return acc


def lit(s):
    return {"k": "lit", "b": list(s.encode())}


def cls(s):
    return {"k": "cls", "s": sorted(s.encode())}


def ref(n):
    return {"k": "ref", "n": n}


# hand-written grammars of the fragment
def _rep(a, m, n):
    return {"k": "rep", "a": a, "m": m, "n": n}


HAND = [
    # two repetitions over ONE element in one grammar (the builder memoises at-most / exact / at-least parts per element)
    ("rep_shared1", {"start": "start", "rules": [
        {"lhs": "start", "alts": [[_rep(ref("a"), 0, 2), lit("x"), _rep(ref("a"), 2, 2)]]},
        {"lhs": "a", "alts": [[lit("a")]]}]}),
    ("rep_shared2", {"start": "start", "rules": [
        {"lhs": "start", "alts": [[_rep(ref("a"), 2, 4), lit("x"), _rep(ref("a"), 2, 4)]]},
        {"lhs": "a", "alts": [[lit("a")], [lit("b")]]}]}),
    ("rep_shared3", {"start": "start", "rules": [
        {"lhs": "start", "alts": [[_rep(ref("a"), 3, 3), lit("x"), _rep(ref("a"), 0, 3), lit("y"), _rep(ref("a"), 1, -1)]]},
        {"lhs": "a", "alts": [[lit("a")]]}]}),
    ("rep_shared4", {"start": "start", "rules": [
        {"lhs": "start", "alts": [[_rep(ref("a"), 0, 5), lit("x"), _rep(ref("a"), 5, 5)], [lit("y"), _rep(ref("a"), 5, 9)]]},
        {"lhs": "a", "alts": [[lit("a")]]}]}),
    ("arith", {"start": "start", "rules": [
        {"lhs": "start", "alts": [[ref("expr")]]},
        {"lhs": "expr", "alts": [[ref("term")], [ref("expr"), lit("+"), ref("term")], [ref("expr"), lit("-"), ref("term")]]},
        {"lhs": "term", "alts": [[ref("atom")], [ref("term"), lit("*"), ref("atom")]]},
        {"lhs": "atom", "alts": [[cls("0123")], [lit("("), ref("expr"), lit(")")]]}]}),
    ("brackets", {"start": "start", "rules": [
        {"lhs": "start", "alts": [[ref("s")]]},
        {"lhs": "s", "alts": [[], [lit("("), ref("s"), lit(")"), ref("s")], [lit("["), ref("s"), lit("]"), ref("s")]]}]}),
    ("nullable_chain", {"start": "start", "rules": [
        {"lhs": "start", "alts": [[ref("a"), ref("b"), ref("c"), lit("x")]]},
        {"lhs": "a", "alts": [[], [lit("a")]]},
        {"lhs": "b", "alts": [[], [lit("b"), ref("b")]]},
        {"lhs": "c", "alts": [[ref("a")], [ref("b")]]}]}),
    ("ambiguous", {"start": "start", "rules": [
        {"lhs": "start", "alts": [[ref("e")]]},
        {"lhs": "e", "alts": [[ref("e"), lit("+"), ref("e")], [lit("a")], [{"k": "opt", "a": lit("a")}, ref("e")]]}]}),
    ("mutual", {"start": "start", "rules": [
        {"lhs": "start", "alts": [[ref("p")]]},
        {"lhs": "p", "alts": [[lit("a"), ref("q")], [lit("c")]]},
        {"lhs": "q", "alts": [[lit("b"), ref("p")], [ref("p"), lit("d")]]}]}),
    ("sibling_lexemes", {"start": "start", "rules": [
        {"lhs": "start", "alts": [[lit("a"), lit(","), lit("x")], [lit("b"), lit(","), lit("y")],
                                  [lit("c"), lit(","), lit(","), cls("xy")]]}]}),
    ("list_rep", {"start": "start", "rules": [
        {"lhs": "start", "alts": [[lit("["), {"k": "opt", "a": {"k": "group", "alts": [[ref("item"), {"k": "rep", "a": {"k": "group", "alts": [[lit(","), ref("item")]]}, "m": 0, "n": 3}]]}}, lit("]")]]},
        {"lhs": "item", "alts": [[cls("012")], [ref("start")]]}]}),
]


def derive(g, rng, max_depth=7):
    """a random sentence of the grammar (bytes), or None if the depth budget runs out"""
    rules = {r["lhs"]: r["alts"] for r in g["rules"]}

    class Fail(Exception):
        pass

    def ign():
        if not g.get("ign") or rng.random() < 0.6:
            return b""
        return bytes(rng.choice(g["ign"]) for _ in range(rng.choice([1, 1, 2])))

    def item(it, d):
        if d > max_depth:
            raise Fail()
        k = it["k"]
        if k == "ref":
            return alts(rules[it["n"]], d + 1)
        if k == "lit":
            return bytes(it["b"]) + ign()
        if k == "cls":
            return bytes([rng.choice(it["s"])]) + ign()
        if k == "opt":
            return item(it["a"], d + 1) if rng.random() < 0.5 else b""
        if k == "star":
            return b"".join(item(it["a"], d + 1) for _ in range(rng.choice([0, 0, 1, 2])))
        if k == "plus":
            return b"".join(item(it["a"], d + 1) for _ in range(rng.choice([1, 1, 2])))
        if k == "rep":
            hi = it["n"] if it["n"] >= 0 else it["m"] + 2
            return b"".join(item(it["a"], d + 1) for _ in range(rng.randint(it["m"], hi)))
        if k == "group":
            return alts(it["alts"], d + 1)
        raise ValueError(k)

    def alts(al, d):
        order = list(al)
        rng.shuffle(order)
        if d > max_depth - 2:
            order.sort(key=len)
        for alt in order:
            try:
                return b"".join(item(x, d) for x in alt)
            except Fail:
                continue
        raise Fail()

    try:
        return ign() + alts(rules[g["start"]], 0)
    except Fail:
        return None


def lang_tokens(g, rng, n_multi=30, maxlen=4):
    """multi-byte tokens that span terminals of THIS grammar: substrings of random sentences and
    cross-overs of them (same bytes except the first or the last one)"""
    samples = [s for s in (derive(g, rng) for _ in range(12)) if s and len(s) >= 2]
    subs = set()
    for _ in range(n_multi):
        if not samples:
            break
        s = rng.choice(samples)
        ln = rng.randint(2, maxlen)
        if len(s) < ln:
            continue
        i = rng.randrange(len(s) - ln + 1)
        subs.add(tuple(s[i:i + ln]))
    subs = sorted(subs)
    extra = set()
    for _ in range(n_multi // 2):
        if len(subs) < 2:
            break
        u, v = list(rng.choice(subs)), rng.choice(subs)
        if rng.random() < 0.5:
            u[-1] = v[-1]
        else:
            u[0] = v[0]
        extra.add(tuple(u))
    return sorted(set(subs) | extra)
