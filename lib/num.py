"""Case-list scenarios (C08 numeric bounds, C09 counts): drive harness `num`, validate with TLC."""
import json
import os
import random
import re

from . import core


def run_cases(prop, tier, seed, cases, res, module, nshards=12, timeout=1800):
    wd = core.workdir(f"{prop}-{tier}")
    core.build_harness()
    shards = [cases[i::nshards] for i in range(nshards) if cases[i::nshards]]

    def run(ix):
        jp = os.path.join(wd, f"job{ix}.json")
        tp = os.path.join(wd, f"trace{ix}.ndjson")
        with open(jp, "w") as f:
            json.dump({"cases": shards[ix]}, f)
        p = core.run_bin("num", [jp, tp], timeout=timeout)
        stats = json.loads(p.stdout.strip().splitlines()[-1])
        tot = core.validate_file(module, tp, prop, tier, seed, timeout=timeout, tagbase=f"{prop}{ix}", max_rejects=12)
        return stats, tot, tp

    outs = core.parallel(run, list(range(len(shards))), workers=nshards)
    rejects = []
    for ix, (stats, tot, tp) in enumerate(outs):
        res.add_validation(tot)
        res.cov["evaluations"] += stats.get("verdicts", 0)
        res.cov["cases_compiled"] = res.cov.get("cases_compiled", 0) + stats.get("compiled", 0)
        rejects += tot["rejects"]
        if ix == 0:
            lines = core.read_lines(tp)
            for ln in lines[1:4:2]:
                res.sample(json.loads(ln))
    return rejects


def explain(module, replay):
    """re-run TLC on a rejected replay with diagnostics on; returns the WHY text"""
    r = core.tlc(module, None, workers=1, trace=replay, tag="explain", extra_env={"EXPLAIN": "1"})
    m = re.search(r'<<\s*"WHY".*?>>\s*\n(?=\S)', r["out"], re.S)
    return m.group(0) if m else ""
