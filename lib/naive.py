"""C16: vocabularies with awkward shapes -> harness `naive` -> Trace_Naive."""
import json
import os
import random

from . import core


def rand_vocab(rng):
    alpha = rng.choice([[97, 98], [97, 98, 99], [120, 121, 195, 169], [48, 49, 32, 34]])
    words = []
    shape = rng.random()
    n = rng.choice([3, 8, 20, 40, 70])
    for _ in range(n):
        ln = rng.choice([1, 1, 2, 2, 3, 4])
        words.append([rng.choice(alpha) for _ in range(ln)])
    if shape < 0.15:
        words += [[b] for b in range(256) if b != 255]      # 255-way fan-out at the root
    if rng.random() < 0.5:
        words.append([alpha[0]] * rng.choice([17, 40, 120]))   # a long chain
    if rng.random() < 0.6:
        for _ in range(rng.randint(1, 4)):
            words.append(list(rng.choice(words)))              # duplicates
    if rng.random() < 0.5:
        for _ in range(rng.randint(1, 3)):
            words.insert(rng.randrange(len(words) + 1), [])    # empty entries
    for _ in range(rng.randint(0, 3)):
        w = rng.choice([w for w in words if w] or [[97]])
        words.append(list(w) + [rng.choice(alpha)])            # prefix chains
    rng.shuffle(words)
    for sp in (b"\xff<a>", b"\xff<|x|>", b"\xff<|end|>"):
        words.append(list(sp))
    # pad to sizes around the 32-bit word boundaries now and then
    if rng.random() < 0.5:
        target = rng.choice([31, 32, 33, 63, 64, 65, 96, 97])
        while len(words) < target:
            words.insert(0, [rng.choice(alpha), rng.choice(alpha), len(words) % 250])
    return {"kind": "list", "words": words, "eos": len(words) - 1}, alpha


def check(tier, seed):
    res = core.Result("C16", tier, seed)
    rng = random.Random(f"C16-{seed}")
    n = 110 if tier == "quick" else 8000
    eps = []
    for i in range(n):
        v, alpha = rand_vocab(rng)
        eps.append({"vocab": v, "alpha": alpha, "seed": rng.randrange(1 << 30), "n_dfa": 6 if tier == "quick" else 20,
                    "n_filter": 2, "n_greedy": 4, "n_vob": 2})
    wd = core.workdir(f"C16-{tier}")
    core.build_harness()
    nsh = 12 if tier == "quick" else 16
    shards = [eps[i::nsh] for i in range(nsh) if eps[i::nsh]]

    def go(ix):
        jp = os.path.join(wd, f"job{ix}.json")
        tp = os.path.join(wd, f"trace{ix}.ndjson")
        json.dump({"episodes": shards[ix]}, open(jp, "w"))
        p = core.run_bin("naive", [jp, tp], timeout=3600)
        st = json.loads(p.stdout.strip().splitlines()[-1])
        tot = core.validate_file("Trace_Naive", tp, "C16", tier, seed, timeout=7200, tagbase=f"C16{ix}")
        return st, tot, tp

    outs = core.parallel(go, list(range(len(shards))), workers=nsh)
    for ix, (st, tot, tp) in enumerate(outs):
        res.add_validation(tot)
        res.cov["evaluations"] += st["events"]
        res.cov["add_bias_calls"] = res.cov.get("add_bias_calls", 0) + st["add_bias"]
        for rj in tot["rejects"]:
            res.violation({"kind": rj.get("ev"), "event": rj["event"][:200]}, rj["replay"])
        if ix == 0:
            for ln in core.read_lines(tp)[2:5]:
                res.sample(json.loads(ln) if len(ln) < 3000 else ln[:400])
    # tokenizer descriptions (tokenizer.json byte-level / byte-fallback, HF adapter, tiktoken ranks)
    from . import tokzgen
    tcases = tokzgen.cases(rng, 24 if tier == "quick" else 600)
    jp = os.path.join(wd, "tokz.json")
    tp = os.path.join(wd, "tokz.ndjson")
    json.dump({"cases": tcases}, open(jp, "w"))
    p = core.run_bin("tokz", [jp, tp], timeout=3600)
    tot = core.validate_file("Trace_Naive", tp, "C16", tier, seed, timeout=7200, tagbase="C16tokz")
    res.add_validation(tot)
    res.cov["tokenizer_descriptions"] = len(tcases)
    res.cov["evaluations"] += json.loads(p.stdout.strip().splitlines()[-1])["events"]
    for rj in tot["rejects"]:
        res.violation({"kind": rj.get("ev"), "event": rj["event"][:200]}, rj["replay"])
    res.cov["distinct_nontrivial"] = len({json.dumps(e["vocab"]["words"]) for e in eps})
    res.cov["rule"] = ("episodes = one random vocabulary each (duplicates, empty entries, prefix chains, 255-way fan-out, "
                       "long chains, sizes around multiples of 32, marker tokens) with: token<->bytes round trip, add_bias / "
                       "has_valid_extensions for random partial DFAs through the public Recognizer trait (with start "
                       "prefixes and pre-set bits), filter, greedy tokenisation, SimpleVob operation sequences; TLC compares "
                       "each result with the naive per-token / plain-set model (spec/Vocab.tla, Vob.tla)")
    # the trie layout and walk as an algorithm (spec/TrieWalk.tla): model checked, replayed, trace-validated
    from . import trie
    trie.check(tier, seed, res)
    res.cov["rule"] += ("; plus the flattened depth-first layout with pop counts and the branch-free walk as a TLA+ algorithm "
                        "(TrieWalk.tla): exhaustive over small vocabularies (u1_models), TLC's finished behaviours replayed "
                        "call by call into TokTrie (tlc_behaviours_replayed), and the recogniser calls of random larger "
                        "vocabularies validated step by step (trie_walk_calls_validated)")
    # negative control
    lines = core.read_lines(os.path.join(wd, "trace0.ndjson"))
    for i, ln in enumerate(lines):
        if '"ev":"AddBias"' in ln[:30]:
            ev = json.loads(ln)
            ev["set"] = ev["set"] + [ev["nb"] - 1] if (ev["nb"] - 1) not in ev["set"] else ev["set"][:-1]
            s, e = core.episode_bounds(lines, i)
            bp = os.path.join(wd, "negctl.ndjson")
            open(bp, "w").write("\n".join(lines[s:i] + [json.dumps(ev)]) + "\n")
            r = core.tlc_trace("Trace_Naive", bp, tag="neg-C16")
            res.cov["negative_controls"].append({"corrupted_add_bias_rejected": not r["accepted"]})
            if r["accepted"]:
                raise core.ToolError("negative control accepted")
            break
    return res
