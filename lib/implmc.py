"""U1 / U2 for spec/EngineImpl.tla (the engine as the implementation arranges it: one virtual stack shared by the
definitive and the speculative path, Earley rows reused by the trie walk, forced bytes, the mask cache and its key,
rollback).  U1: TLC explores every bounded sequence of public operations of the model for a few small grammars and
checks that every result is the reference engine's (MC_EngineImpl: Refines, StateRefines, Structure, CacheOK); the
same model with one design switch turned off must FAIL (negative configurations: they re-create the repaired defect
`mask cache kept across rollback` and three more slips).  U2: TLC prints every behaviour of a bounded depth as a script;
the `rel` driver replays it on the real engine and Trace_Lex.tla validates every recorded result."""
import json
import os

from . import core, lexgen, rel


def lit(s):
    return {"k": "lit", "s": [ord(c) for c in s]}


def cls(s):
    return {"k": "cls", "neg": 0, "cps": sorted(ord(c) for c in s)}


def plus(a):
    return {"k": "rep", "a": a, "m": 1, "n": -1}


def T(i):
    return {"k": "tok", "ids": [i]}


def words(*ws):
    return [[ord(c) for c in w] for w in ws]


CONFIGS = [
    # start: "a" X | "b" X "!" ; X: /[01]+/   -- one lexer state at one row index with two different followers
    {"name": "ab_digits_bang",
     "lex": {"start": "start", "lexemes": [lit("a"), lit("b"), plus(cls("01")), lit("!")],
             "rules": [{"lhs": "start", "alts": [[T(0), T(2)], [T(1), T(2), T(3)]]}]},
     "tok": words("a0", "b0", "0", "1", "!", "a", "b", "01", "1!", "b1!")},
    # keyword vs identifier with %ignore: start: KW ID | ID
    {"name": "kw_id_ws",
     "lex": {"start": "start", "lexemes": [lit("if"), plus(cls("ifx")), plus(cls(" "))], "skip": 2,
             "rules": [{"lhs": "start", "alts": [[T(0), T(1)], [T(1)]]}]},
     "tok": words("i", "f", "x", " ", "if", "ifx", "if ", "f x", " x", "x ")},
    # forced text around a free part: "abc" /[de]+/ "ab"
    {"name": "forced_abc",
     "lex": {"start": "start", "lexemes": [lit("abc"), plus(cls("de")), lit("ab")],
             "rules": [{"lhs": "start", "alts": [[T(0), T(1), T(2)]]}]},
     "tok": words("a", "b", "c", "d", "e", "ab", "cd", "abc", "ea", "eab", "bc")},
    # two forced continuations of different length: "a" "bc" | "def" "gh"
    {"name": "forced_two",
     "lex": {"start": "start", "lexemes": [lit("a"), lit("bc"), lit("def"), lit("gh")],
             "rules": [{"lhs": "start", "alts": [[T(0), T(1)], [T(2), T(3)]]}]},
     "tok": words("a", "def", "b", "c", "bc", "g", "h", "gh", "d", "de", "f")},
    # literals that are prefixes of one another, repeated: (A | AB | ABA)+ ; single-byte lexemes chain
    {"name": "prefix_literals",
     "lex": {"start": "start", "lexemes": [lit("a"), lit("ab"), lit("aba")],
             "rules": [{"lhs": "start", "alts": [[{"k": "plus", "a": {"k": "group", "alts": [[T(0)], [T(1)], [T(2)]]}}]]}]},
     "tok": words("a", "b", "ab", "ba", "aba", "aa", "bab")},
    # brackets: nested rule with single-byte lexemes that chain inside one token; sibling tokens that push the same
    # lexeme at the same row index over different rows below
    {"name": "brackets",
     "lex": {"start": "start", "lexemes": [lit("("), lit(")"), plus(cls("x"))],
             "rules": [{"lhs": "start", "alts": [[{"k": "ref", "n": "e"}]]},
                       {"lhs": "e", "alts": [[T(2)], [T(0), {"k": "ref", "n": "e"}, T(1)]]}]},
     "tok": words("((", "(", ")", "x", "(x)", "x))", "x)))", "x)", "(x")},
    # a lazy lexeme (ends at its first match) before a greedy one that starts alike: l0[lazy]: /a+/ ; T1: /a*b/
    {"name": "lazy_then_greedy",
     "lex": {"start": "start", "lexemes": [plus(lit("a")), {"k": "cat", "a": [{"k": "rep", "a": lit("a"), "m": 0, "n": -1}, lit("b")]}],
             "lazy": [0],
             "rules": [{"lhs": "start", "alts": [[{"k": "plus", "a": T(0)}, T(1)]]}]},
     "tok": words("a", "b", "aa", "ab", "aab", "ba")},
    # one lexeme at two rows with different followers: X "," X "!"
    {"name": "list_bang",
     "lex": {"start": "start", "lexemes": [plus(cls("x")), lit(","), lit("!")],
             "rules": [{"lhs": "start", "alts": [[T(0), T(1), T(0), T(2)]]}]},
     "tok": words("x", ",x", ",", "!", "x,", "x!", "xx")},
]

def full_tok(conf):
    """the configuration's tokens, every byte of the grammar's alphabet as a single-byte token (a canonical tokenizer
    must be able to spell forced text: greedy_tokenize silently skips a byte no token starts with), two specials, EOS last"""
    tok = [list(w) for w in conf["tok"]]
    for b in sorted({b for w in conf["tok"] for b in w}):
        if [b] not in tok:
            tok.append([b])
    return tok + [[255, 60, 97, 62], [255, 60, 124, 101, 110, 100, 124, 62]]


SW_OK = {"clearOnRollback": 1, "keyRow": 1, "keyPending": 1, "resetLastForce": 1, "vendMax": 0, "clearFFOnRollback": 1}
# design slips the model must reject: (switch, value, configuration it shows on)
NEGATIVE = [("clearOnRollback", 0, "ab_digits_bang"), ("keyRow", 0, "list_bang"),
            ("vendMax", 1, "brackets"), ("resetLastForce", 0, "forced_two"),
            # canonical tokenizer: the remembered fast-forward tokens kept across rollback (the seeded change C12-c)
            ("clearFFOnRollback", 0, "forced_two")]
NEG_CANON = {"clearFFOnRollback"}


def conf_json(conf, depth, cap, record, sw=None, fuel=8, canon=0):
    tok = full_tok(conf)
    text = [i for i, w in enumerate(tok) if w and w[0] != 255]
    order = sorted(text, key=lambda i: (bytes(tok[i]), i))
    alpha = sorted({b for w in conf["tok"] for b in w} | {122})
    return {"lex": conf["lex"], "tok": tok, "eos": len(tok) - 1, "order": order, "alpha": alpha, "depth": depth, "cap": cap,
            "canon": canon, "maxlen": max(len(w) for w in tok),
            "record": record, "fuel": fuel, "sw": dict(SW_OK, **(sw or {}))}


def run_model(conf, depth, cap, record, wd, sw=None, tag="", workers=4, timeout=3600, canon=0):
    c = conf_json(conf, depth, cap, record, sw, canon=canon)
    cp = os.path.join(wd, f"impl-{conf['name']}{tag}.ndjson")
    open(cp, "w").write(json.dumps(c) + "\n")
    return c, cp


def u1(res, tier, wd=None):
    """exhaustive model checking of the positive configurations + the negative ones (must be rejected)"""
    wd = wd or core.workdir(f"implmc-u1-{tier}")
    q = tier == "quick"
    depth = 4 if q else 5
    ndepth = 5
    by = {c["name"]: c for c in CONFIGS}

    def pos(t):
        conf, canon = t
        c, cp = run_model(conf, depth, 3, 0, wd, canon=canon, tag=f"-c{canon}")
        r = core.tlc_check("MC_EngineImpl", workers=2 if q else 4, timeout=3600, extra_env={"CONFIG": cp},
                           tag=f"impl-u1-{conf['name']}-{canon}")
        if not r["ok"]:
            raise core.ToolError(f"MC_EngineImpl failed on {conf['name']}:\n" + r.get("tail", ""))
        return conf["name"] + (":canonical" if canon else ""), r

    def neg(t):
        sw, val, name = t
        c, cp = run_model(by[name], ndepth, 2, 0, wd, sw={sw: val}, tag=f"-neg-{sw}", canon=1 if sw in NEG_CANON else 0)
        r = core.tlc_check("MC_EngineImpl", workers=2, timeout=3600, extra_env={"CONFIG": cp}, tag=f"impl-neg-{sw}")
        viol = "is violated" in r["out"]
        return sw, name, viol, r

    # every configuration with a non-canonical tokenizer; with a canonical one (forcing, fast-forward tokens, token healing,
    # narrowed masks) half of them per run at the quick tier
    jobs = [(c, 0) for c in CONFIGS] + [(c, 1) for i, c in enumerate(CONFIGS) if not q or i % 2 == 0]
    out_pos = core.parallel(pos, jobs, workers=8)
    out_neg = core.parallel(neg, NEGATIVE, workers=4)
    for name, r in out_pos:
        res.add_tlc(r)
        res.cov["u1_models"].append({"model": f"MC_EngineImpl[{name}] depth {depth}: every result of the implementation-shaped "
                                              "engine (virtual stack, row reuse, forced bytes, mask cache, rollback) equals the "
                                              "reference engine's", "distinct_states": r["distinct"]})
    for sw, name, viol, r in out_neg:
        res.cov["negative_controls"].append({"design_slip_rejected_by_MC_EngineImpl": f"{sw} on {name}", "rejected": viol})
        if not viol:
            raise core.ToolError(f"MC_EngineImpl accepted the design slip {sw} on {name}")
    return res


def u2(prop, tier, seed, res, depth=None):
    """TLC-generated scripts replayed on the real engine, results validated by Trace_Lex"""
    q = tier == "quick"
    depth = depth or (3 if q else 4)
    wd = core.workdir(f"{prop}-implu2-{tier}")
    def gen(t):
        conf, canon = t
        c, cp = run_model(conf, depth, 2, 1, wd, tag=f"-gen{canon}", canon=canon)
        r = core.tlc_generate("MC_EngineImpl", workers=2, timeout=3600, extra_env={"CONFIG": cp}, tag=f"impl-u2-{conf['name']}-{canon}")
        return conf, canon, c, r

    eps = []
    per = 90 if q else 2500
    for conf, canon, c, r in core.parallel(gen, [(c, k) for c in CONFIGS for k in (0, 1)], workers=8):
        res.add_tlc(r)
        voc = {"kind": "list", "words": c["tok"], "eos": c["eos"], "canonical": canon}
        gram = {"kind": "lark", "text": lexgen.lark_text(conf["lex"])}
        scripts = r["items"]
        res.cov.setdefault("u2_behaviours_enumerated", 0)
        res.cov["u2_behaviours_enumerated"] += len(scripts)
        if len(scripts) > per:
            import random
            scripts = random.Random(f"{seed}-{conf['name']}-{canon}").sample(scripts, per)
        for k, script in enumerate(scripts):
            eps.append({"gid": f"implu2:{conf['name']}:c{canon}:{k}", "mode": "U2", "seed": k, "steps": 0, "gram": gram,
                        "cfgs": [{"vocab": voc, "vid": 0, "slices": []}], "w": {}, "log_vocab": 1,
                        "init_extra": {"lex": conf["lex"]}, "script": [list(x) for x in script]})
    res.cov.setdefault("u2_behaviours_generated_by_tlc", 0)
    res.cov["u2_behaviours_generated_by_tlc"] += len(eps)
    if eps:
        res.sample({"tlc_generated_script_EngineImpl": eps[len(eps) // 2]["script"]})
    rejects = rel.drive_and_validate(f"{prop}-implu2x", tier, seed, {"episodes": eps}, res, nshards=12 if q else 16,
                                     module="Trace_Lex", timeout=7200, also=("Trace_Impl",))
    return split_discrepancies(rejects, res)


def split_discrepancies(rejects, res):
    """a recorded result that differs from the IMPLEMENTATION-SHAPED model (Trace_Impl) while the reference semantics
    (Trace_Lex) accepts it says that EngineImpl.tla no longer describes the code (e.g. a different, still correct,
    token-healing rule) - not that a listed property is broken: reported as DISCREPANCY, never as VIOLATION"""
    keep = []
    for rj in rejects:
        if rj.get("spec") == "Trace_Impl":
            res.cov.setdefault("model_discrepancies_EngineImpl", []).append({"replay": rj["replay"], "event": rj["event"][:200]})
            core.log(f"DISCREPANCY spec=EngineImpl replay={rj['replay']}")
        else:
            keep.append(rj)
    return keep
