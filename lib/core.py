"""Orchestration helpers: harness build, TLC runs (model checking, behaviour generation, trace
validation), replay files, evidence, known findings.  Python 3 standard library only."""
import concurrent.futures as cf
import hashlib
import json
import os
import re
import shutil
import subprocess
import sys
import time

VERIF = os.path.dirname(os.path.dirname(os.path.abspath(__file__)))
SPEC = os.path.join(VERIF, "spec")
HARNESS = os.path.join(VERIF, "harness")
WORK = os.path.join(VERIF, ".work")
EVID = os.path.join(VERIF, "evidence")
REPLAYS = os.path.join(EVID, "replays")
REPO = "/repo"
NCPU = 16

# Evaluating a seeded change without touching /repo (tools/try_mutant.sh): VERIF_REPO names a scratch worktree of the
# project; the harness is then built in a shadow directory against that tree, and work files / evidence / replays of
# the run go under .work/alt-<name> so that neither /repo nor the committed evidence is disturbed.  Registered checks
# never set it: they always rebuild from /repo.
ALT_REPO = os.environ.get("VERIF_REPO")
if ALT_REPO and os.path.abspath(ALT_REPO) != REPO:
    REPO = os.path.abspath(ALT_REPO)
    WORK = os.path.join(VERIF, ".work", "alt-" + os.path.basename(REPO))
    EVID = os.path.join(WORK, "evidence")
    REPLAYS = os.path.join(EVID, "replays")
    _shadow = os.path.join(WORK, "harness")
    os.makedirs(os.path.join(_shadow, ".cargo"), exist_ok=True)
    with open(os.path.join(HARNESS, "Cargo.toml")) as _f:
        _toml = _f.read().replace('"/repo/', '"' + REPO + '/')
    with open(os.path.join(_shadow, "Cargo.toml"), "w") as _f:
        _f.write(_toml)
    shutil.copyfile(os.path.join(HARNESS, ".cargo", "config.toml"), os.path.join(_shadow, ".cargo", "config.toml"))
    if not os.path.islink(os.path.join(_shadow, "src")):
        os.symlink(os.path.join(HARNESS, "src"), os.path.join(_shadow, "src"))
    HARNESS = _shadow
else:
    ALT_REPO = None


class ToolError(Exception):
    """Something in the machinery (not in the code under test) failed: exit 2, never VIOLATION."""


def log(*a):
    print(*a, file=sys.stderr, flush=True)


def workdir(name):
    d = os.path.join(WORK, name)
    shutil.rmtree(d, ignore_errors=True)
    os.makedirs(d, exist_ok=True)
    return d


# --------------------------------------------------------------------------- harness

_built = {}


def build_harness(profile="release"):
    """Rebuild the harness against /repo's current working tree (hook cfg `llg_verif` on)."""
    if profile in _built:
        return _built[profile]
    lock = os.path.join(HARNESS, "Cargo.lock")
    src = os.path.join(REPO, "Cargo.lock")
    if not os.path.exists(lock) or open(lock).read() != open(src).read():
        # keep only packages we can resolve; cargo prunes the rest
        shutil.copyfile(src, lock)
    env = dict(os.environ, CARGO_NET_OFFLINE="true")
    cmd = ["cargo", "build", "--offline", "--quiet"]
    cmd += ["--release"] if profile == "release" else ["--profile", profile]
    t0 = time.time()
    p = subprocess.run(cmd, cwd=HARNESS, env=env, stdout=subprocess.PIPE, stderr=subprocess.STDOUT, text=True)
    if p.returncode != 0:
        sys.stderr.write(p.stdout[-6000:])
        raise ToolError("harness build failed (the tree under /repo does not compile with the harness)")
    d = os.path.join(HARNESS, "target", profile)
    log(f"[build] harness profile={profile} {time.time()-t0:.1f}s")
    _built[profile] = d
    return d


def _limits():
    # a driver never needs more; the recorded unbounded-allocation finding must not take the machine down
    import resource
    resource.setrlimit(resource.RLIMIT_AS, (12 << 30, 12 << 30))


def run_bin(name, args, profile="release", timeout=3600, stdin=None, env=None, check=True, ok_codes=(0,)):
    d = build_harness(profile)
    e = dict(os.environ)
    if env:
        e.update(env)
    p = subprocess.run([os.path.join(d, name)] + list(args), stdout=subprocess.PIPE, stderr=subprocess.PIPE,
                       text=True, timeout=timeout, input=stdin, env=e, preexec_fn=_limits)
    if check and p.returncode not in ok_codes:
        raise ToolError(f"{name} {' '.join(args)} exited {p.returncode}: {p.stderr[-2000:]}")
    return p


# --------------------------------------------------------------------------- TLC

_STATES = re.compile(r"(\d+) states generated, (\d+) distinct states found")
_DEPTH = re.compile(r"The depth of the complete state graph search is (\d+)")


def _tlc_env(trace=None, xmx="3g", extra_env=None, tmpdir=None):
    e = dict(os.environ)
    e["JAVA_TOOL_OPTIONS"] = f"-Xss1g -Xmx{xmx} -XX:ParallelGCThreads=2 -XX:CICompilerCount=2" + (f" -Djava.io.tmpdir={tmpdir}" if tmpdir else "")
    e.setdefault("EXPLAIN", "0")
    e.setdefault("JVIEW", "all")
    if trace:
        e["TRACE"] = trace
    if extra_env:
        e.update(extra_env)
    return e


def tlc(module, cfg=None, workers=1, timeout=1800, trace=None, tag=None, xmx="3g", extra=None, extra_env=None,
        coverage=False):
    """Run TLC on spec/<module>.tla; returns dict(out, rc, states, distinct, depth, wall)."""
    tag = tag or f"{module}-{os.getpid()}-{time.time_ns()}"
    md = os.path.join(WORK, "tlc", tag)
    shutil.rmtree(md, ignore_errors=True)
    os.makedirs(md, exist_ok=True)
    cfg = cfg or module + ".cfg"
    cmd = ["timeout", str(timeout), "tlc", "-workers", str(workers), "-metadir", md, "-cleanup",
           "-noGenerateSpecTE", "-config", cfg]
    if coverage:
        cmd += ["-coverage", "1"]
    if extra:
        cmd += extra
    cmd += [module + ".tla"]
    t0 = time.time()
    p = subprocess.run(cmd, cwd=SPEC, env=_tlc_env(trace, xmx, extra_env, tmpdir=md), stdout=subprocess.PIPE,
                       stderr=subprocess.STDOUT, text=True)
    wall = time.time() - t0
    shutil.rmtree(md, ignore_errors=True)
    out = p.stdout
    r = {"out": out, "rc": p.returncode, "wall": wall, "states": 0, "distinct": 0, "depth": 0}
    m = None
    for m in _STATES.finditer(out):
        pass
    if m:
        r["states"], r["distinct"] = int(m.group(1)), int(m.group(2))
    m = _DEPTH.search(out)
    if m:
        r["depth"] = int(m.group(1))
    if p.returncode == 124:
        raise ToolError(f"TLC timed out after {timeout}s on {module}")
    return r


def tlc_check(module, cfg=None, workers=4, timeout=1800, **kw):
    """U1: exhaustive model checking of a bounded configuration; must finish without error."""
    r = tlc(module, cfg, workers=workers, timeout=timeout, **kw)
    ok = "Model checking completed. No error has been found." in r["out"]
    r["ok"] = ok
    if not ok:
        r["tail"] = "\n".join(r["out"].splitlines()[-40:])
    return r


_PRINT = re.compile(r'^"(.*)"$')


def tlc_generate(module, cfg=None, workers=4, timeout=1800, marker="REPLAY", **kw):
    """U2: run a generator configuration; collect the JSON payloads it prints.
    The spec prints  <<"REPLAY", ToJson(x)>>  i.e. a TLA+ tuple whose 2nd element is a string."""
    r = tlc(module, cfg, workers=workers, timeout=timeout, **kw)
    items = []
    pat = re.compile(r'^<<"' + marker + r'", "(.*)">>$')
    for line in r["out"].splitlines():
        m = pat.match(line.strip())
        if m:
            s = m.group(1)
            # TLA+ string escaping -> JSON text
            items.append(json.loads(json.loads('"' + s + '"')))
    ok = "Model checking completed. No error has been found." in r["out"] or "Finished in" in r["out"]
    if not ok or " Error:" in r["out"] and "Invariant" in r["out"]:
        raise ToolError("generator run failed:\n" + "\n".join(r["out"].splitlines()[-30:]))
    r["items"] = items
    return r


_REJ = re.compile(r'<<\s*"REJECT",\s*(\d+)\s*[,>]')


def tlc_trace(module, trace, cfg=None, timeout=1800, tag=None, xmx="3g", extra_env=None):
    """U3: validate one ndjson trace file. Returns dict(accepted, reject_at, ...)."""
    n_lines = sum(1 for _ in open(trace))
    if n_lines == 0:
        return {"accepted": True, "states": 0, "distinct": 0, "wall": 0.0, "events": 0, "out": ""}
    r = tlc(module, cfg, workers=1, timeout=timeout, trace=trace, tag=tag, xmx=xmx, extra_env=extra_env)
    out = r["out"]
    r["events"] = n_lines
    rej = None
    m = _REJ.search(out)
    if m:
        rej = int(m.group(1))
    if "Model checking completed. No error has been found." in out and rej is None:
        if r["depth"] != n_lines + 1:
            raise ToolError(f"trace accepted but depth {r['depth']} != events+1 {n_lines+1}")
        r["accepted"] = True
        return r
    if rej is None:
        # an invariant violation or evaluation error: depth tells where
        m = re.search(r"Error: (.*)", out)
        if "is violated" in out or "Invariant" in out and "violated" in out:
            # the state trace ends at the violating state; use the number of states printed
            n = len(re.findall(r"^State \d+:", out, re.M))
            rej = max(1, n - 1)
            r["invariant"] = True
        else:
            raise ToolError("TLC failed on trace " + trace + ":\n" + "\n".join(out.splitlines()[-40:]))
    r["accepted"] = False
    r["reject_at"] = rej  # 1-based index of the first event that has no action
    return r


# --------------------------------------------------------------------------- traces and episodes

def read_lines(path):
    with open(path) as f:
        return f.read().splitlines()


def episode_bounds(lines, idx0):
    """lines: list of ndjson strings; idx0: 0-based index of an event; returns [start, end) of its episode."""
    start = idx0
    while start > 0 and '"ev":"Init"' not in lines[start][:40]:
        start -= 1
    end = idx0 + 1
    while end < len(lines) and '"ev":"Init"' not in lines[end][:40]:
        end += 1
    return start, end


def validate_file(module, trace, prop, tier, seed, cfg=None, max_rejects=4, timeout=1800, tagbase="v", extra_env=None):
    """Validate a trace file; on rejection cut the episode into a replay file and continue after it.
    Returns dict(states, transitions, events, episodes, rejects=[{replay, event, index}])."""
    lines = read_lines(trace)
    total = {"states": 0, "transitions": 0, "events": len(lines), "wall": 0.0, "rejects": [],
             "episodes": sum(1 for l in lines if '"ev":"Init"' in l[:40])}
    cur = trace
    cur_lines = lines
    k = 0
    while True:
        r = tlc_trace(module, cur, cfg=cfg, timeout=timeout, tag=f"{tagbase}-{os.path.basename(trace)}-{k}", extra_env=extra_env)
        total["states"] += r["distinct"]
        total["transitions"] += max(0, r["states"] - 1)
        total["wall"] += r["wall"]
        if r["accepted"]:
            break
        i0 = r["reject_at"] - 1
        s, e = episode_bounds(cur_lines, i0)
        os.makedirs(REPLAYS, exist_ok=True)
        h = hashlib.sha1("\n".join(cur_lines[s:e]).encode()).hexdigest()[:10]
        rp = os.path.join(REPLAYS, f"{prop}-{tier}-{seed}-{h}.ndjson")
        with open(rp, "w") as f:
            f.write("\n".join(cur_lines[s:e]) + "\n")
        mev = re.search(r'"ev":"(\w+)"', cur_lines[i0])
        total["rejects"].append({"replay": rp, "index": i0 - s, "event": cur_lines[i0][:400],
                                 "ev": mev.group(1) if mev else "?",
                                 "init": cur_lines[s][:400], "spec": module,
                                 "invariant": bool(r.get("invariant"))})
        k += 1
        cur_lines = cur_lines[e:]
        if not cur_lines or k >= max_rejects:
            break
        cur = trace + f".rest{k}"
        with open(cur, "w") as f:
            f.write("\n".join(cur_lines) + "\n")
    return total


def parallel(fn, items, workers=NCPU):
    """Run fn over items in a thread pool (each item launches subprocesses)."""
    if not items:
        return []
    with cf.ThreadPoolExecutor(max_workers=min(workers, len(items))) as ex:
        return list(ex.map(fn, items))


# --------------------------------------------------------------------------- findings / evidence

def load_known():
    p = os.path.join(VERIF, "known_findings.json")
    if not os.path.exists(p):
        return {"findings": [], "fixed": []}
    return json.load(open(p))


def match_known(prop, sig):
    """sig: dict describing a violation. A finding matches when every key of its `match` equals
    the signature's value (strings: equality; lists in the finding: membership)."""
    for f in load_known().get("findings", []):
        if f.get("property") != prop:
            continue
        ok = True
        for k, v in f.get("match", {}).items():
            sv = sig.get(k)
            if isinstance(v, list):
                ok = ok and sv in v
            else:
                ok = ok and sv == v
        if ok:
            return f
    return None


class Result:
    """Collects what a check run covered and found; writes evidence; decides the exit status."""

    def __init__(self, prop, tier, seed, level="model_checking"):
        self.prop, self.tier, self.seed, self.level = prop, tier, seed, level
        self.t0 = time.time()
        self.cov = {"states": 0, "transitions": 0, "traces_validated_against_impl": 0, "samples": [],
                    "evaluations": 0, "distinct_nontrivial": 0, "rule": "", "tlc_runs": 0,
                    "u1_models": [], "negative_controls": []}
        self.assumptions = []
        self.violations = []   # (sig, replay)
        self.known = []
        self._distinct = set()

    def add_tlc(self, r):
        self.cov["states"] += r.get("distinct", 0) or r.get("states", 0)
        self.cov["transitions"] += r.get("transitions", max(0, r.get("states", 0) - 1))
        self.cov["tlc_runs"] += 1

    def add_validation(self, tot):
        self.cov["states"] += tot["states"]
        self.cov["transitions"] += tot["transitions"]
        self.cov["tlc_runs"] += 1
        self.cov["traces_validated_against_impl"] += tot["episodes"]

    def sample(self, x, limit=6):
        if len(self.cov["samples"]) < limit:
            self.cov["samples"].append(x)

    def distinct(self, key):
        self._distinct.add(key)

    def violation(self, sig, replay):
        f = match_known(self.prop, sig)
        if f:
            self.known.append((f, sig))
        else:
            self.violations.append((sig, replay))

    def finish(self):
        self.cov["distinct_nontrivial"] = max(self.cov["distinct_nontrivial"], len(self._distinct))
        os.makedirs(EVID, exist_ok=True)
        ev = {"property_id": self.prop, "tier": self.tier, "seed": self.seed, "level": self.level,
              "coverage": self.cov, "assumptions": self.assumptions,
              "wall_s": round(time.time() - self.t0, 2), "violations": len(self.violations),
              "known_findings_matched": [f["id"] for f, _ in self.known]}
        with open(os.path.join(EVID, f"{self.prop}.json"), "w") as f:
            json.dump(ev, f, indent=1, default=str)
        seen = set()
        for f_, sig in self.known:
            if f_["id"] not in seen:
                seen.add(f_["id"])
                print(f"KNOWN-FINDING: property={self.prop} {f_['id']}: {f_['what']}")
        for sig, replay in self.violations:
            print(f"VIOLATION property={self.prop} replay={replay}")
            log("   ", json.dumps(sig)[:600])
        return 1 if self.violations else 0
