"""./check lexparse : conformance of the implementation's lexer / parser interplay with spec/LexParse.tla (grammars whose
named terminals overlap).  NOT one of the listed properties (C05 is restricted to terminals that cannot be confused):
a rejection here means that the specification does not describe the code, and is printed as
  DISCREPANCY spec=LexParse replay=<path>
(exit 1) so that either the specification or the code gets looked at; it never prints a VIOLATION line."""
import json
import os
import sys

from . import core, exact, lexgen, rel


def survives(ep, ix, wd):
    """the recorded finding C20/force-bytes-unbounded-loop (one byte stays allowed for ever under maximal munch, e.g.
    `/a+/` followed by a lexeme that starts with `a`) is easy to hit with overlapping lexemes; such grammars are dropped
    here: one forced-bytes query under a CPU / address-space limit"""
    import resource
    import subprocess

    def lim():
        resource.setrlimit(resource.RLIMIT_AS, (3 << 30, 3 << 30))
        resource.setrlimit(resource.RLIMIT_CPU, (10, 10))
    jp = os.path.join(wd, f"pre{ix}.json")
    probe = dict(ep, script=[["ffb", 0], ["mask", 0]])
    json.dump({"episodes": [probe]}, open(jp, "w"))
    p = subprocess.run([os.path.join(core.build_harness(), "rel"), jp, os.path.join(wd, f"pre{ix}.ndjson")],
                       stdout=subprocess.PIPE, stderr=subprocess.PIPE, preexec_fn=lim)
    return p.returncode == 0


def run(tier, seed):
    res = core.Result("LEXPARSE", tier, seed)
    q = tier == "quick"
    job = lexgen.job("LEX", seed, 60 if q else 2000, exact.W_LIGHT)
    wd = core.workdir(f"LEXpre-{tier}")
    core.build_harness()
    keep = core.parallel(lambda t: survives(t[1], t[0], wd), list(enumerate(job["episodes"])), workers=12)
    dropped = sum(1 for k in keep if not k)
    job["episodes"] = [e for e, k in zip(job["episodes"], keep) if k]
    print(json.dumps({"grammars_dropped_for_the_unbounded_forced_bytes_finding": dropped}))
    rejects = rel.drive_and_validate("LEX", tier, seed, job, res, nshards=8 if q else 16, module="Trace_Lex", timeout=7200)
    rel.negative_control("LEX", res, module="Trace_Lex")
    print(json.dumps({"episodes": res.cov.get("episodes_compiled"), "skipped": res.cov.get("episodes_skipped"),
                      "events": res.cov["evaluations"], "exhaustive_walk_nodes": res.cov.get("exhaustive_walk_nodes", 0),
                      "rejects": len(rejects), "negative_controls": res.cov["negative_controls"]}))
    for rj in rejects:
        print(f"DISCREPANCY spec=LexParse replay={rj['replay']}")
        print("    " + json.dumps(rel.signature(rj)))
    return 1 if rejects else 0
