"""JSON-schema and instance generators for C06/C07 and for the cross-check of spec/JsonSchema.tla.
Python only proposes schemas / candidate instances; validity is decided by TLA+."""
import json

from . import rxgen

STR_ALPHA = [ord(c) for c in "ab01 -"] + [233, 8364]
FORMATS = ["date", "time", "date-time", "ipv4", "uuid"]


class Ctx:
    def __init__(self, rng, full=False):
        self.rng = rng
        self.pats = []      # pattern table entries
        self.defs = {}
        self.full = full    # C07's fully supported subset only (no pattern/format/allOf/oneOf/unsupported)
        self.ndefs = 0
        self.key_hints = []


def pattern(ctx, kind="value"):
    rng = ctx.rng
    ast = rxgen.r_node(rng, [c for c in STR_ALPHA if c < 128], rng.randint(1, 4), icase_ok=False)
    as_, ae = (1, 1) if rng.random() < 0.7 else (rng.choice([0, 1]), rng.choice([0, 1]))
    text = ("^" if as_ else "") + wrap_alt(ast) + ("$" if ae else "")
    ctx.pats.append({"text": [ord(c) for c in text], "ast": ast, "as": as_, "ae": ae})
    return text


def wrap_alt(ast):
    t = rxgen.rx_text(ast)
    return "(?:" + t + ")" if ast["k"] == "alt" else t


def gen_tight_integer(ctx):
    """an integer in a narrow window with fractional and / or exclusive bounds (either sign) and possibly multipleOf: few
    or single witnesses, so that a bound that is off by one empties the language (a dead end, not a wrong verdict)"""
    rng = ctx.rng
    lo = rng.randint(-6, 6) + rng.choice([0, 0.5, -0.5, 0.25, -0.75])
    hi = lo + rng.choice([0.5, 1, 1.5, 2, 3])
    s = {"type": "integer"}
    s["exclusiveMinimum" if rng.random() < 0.5 else "minimum"] = lo
    if rng.random() < 0.8:
        s["exclusiveMaximum" if rng.random() < 0.4 else "maximum"] = hi
    if rng.random() < 0.5:
        s["multipleOf"] = rng.choice([2, 2, 3, 4])
    return s


def tight_integer_family():
    """required integer property in a narrow window: fractional / exclusive bounds of either sign, optional multipleOf;
    only members with at least one witness (decided here with exact fractions; the engine's verdicts are not used)"""
    from fractions import Fraction as Fr
    out = []
    for lo in ("-4.5", "-3.5", "-2.5", "-1.5", "-0.5", "0.5", "1.5", "2.5", "-3", "-2", "-1", "2", "3", "-2.25", "1.75"):
        for lo_excl in (True, False):
            for width in ("0.5", "1", "1.5", "2", "3"):
                for hi_excl in (False, True):
                    for mult in (None, 2, 3, 4):
                        a, b = Fr(lo), Fr(lo) + Fr(width)
                        wit = [k for k in range(-12, 13)
                               if (a < k if lo_excl else a <= k) and (k < b if hi_excl else k <= b) and (mult is None or k % mult == 0)]
                        if not wit:
                            continue
                        n = {"type": "integer", ("exclusiveMinimum" if lo_excl else "minimum"): float(a),
                             ("exclusiveMaximum" if hi_excl else "maximum"): float(b)}
                        if mult:
                            n["multipleOf"] = mult
                        shape = {"type": "object", "properties": {"n": n}, "required": ["n"], "additionalProperties": False}
                        out.append((f"tight:{lo}:{int(lo_excl)}:{width}:{int(hi_excl)}:{mult}:w{len(wit)}", shape))
    return out


def gen_number_schema(ctx, integer):
    rng = ctx.rng
    if integer and rng.random() < 0.25:
        return gen_tight_integer(ctx)
    s = {"type": "integer" if integer else "number"}
    r = rng.random()
    lo = rng.choice([-5, -1, 0, 1, 3, 10])
    hi = lo + rng.choice([0, 1, 2, 7, 40, 200])
    if not integer and rng.random() < 0.4:
        lo = lo + rng.choice([0.5, 0.25, -0.75])
        hi = hi + rng.choice([0.5, 0.125])
    if r < 0.6:
        s["exclusiveMinimum" if rng.random() < 0.3 else "minimum"] = lo
    if 0.3 < r < 0.9:
        s["exclusiveMaximum" if rng.random() < 0.3 else "maximum"] = hi
    if integer and rng.random() < 0.25:
        s["multipleOf"] = rng.choice([2, 3, 5, 10])
    return s


def gen_string_schema(ctx):
    rng = ctx.rng
    s = {"type": "string"}
    r = rng.random()
    if r < 0.35:
        lo = rng.choice([0, 0, 1, 2, 3])
        if rng.random() < 0.7:
            s["minLength"] = lo
        if rng.random() < 0.8:
            s["maxLength"] = lo + rng.choice([0, 1, 2, 5])
    elif r < 0.55 and not ctx.full:
        s["pattern"] = pattern(ctx)
        if rng.random() < 0.3:
            s["maxLength"] = rng.choice([2, 4, 8])
    elif r < 0.7 and not ctx.full:
        s["format"] = rng.choice(FORMATS)
    elif r < 0.85:
        return {"enum": rng.sample(["a", "ab", "abc", "b", "", "x y", "é", "a\"b", "line\nbreak", "foo", "foobar"], rng.randint(1, 4))}
    return s


def gen_schema(ctx, depth):
    rng = ctx.rng
    if not ctx.full and depth > 0 and rng.random() < 0.08:
        return gen_allof(ctx, depth)
    r = rng.random()
    if depth <= 0:
        r = r * 0.55
    if r < 0.06:
        return {"type": "null"}
    if r < 0.12:
        return {"type": "boolean"}
    if r < 0.24:
        return gen_number_schema(ctx, True)
    if r < 0.32:
        return gen_number_schema(ctx, False)
    if r < 0.46:
        return gen_string_schema(ctx)
    if r < 0.52:
        vals = [1, 2, 12, -3, 2.5, True, False, None, "a", "ab", [1, 2], [], {"k": 1}, {}, "1"]
        if rng.random() < 0.4:
            return {"const": rng.choice(vals)}
        return {"enum": rng.sample(vals, rng.randint(1, 4))}
    if r < 0.55:
        # a type union carrying the keywords of its member types (an intersection under an alternation)
        ts = rng.sample(["string", "null", "integer", "boolean", "number"], 2)
        s = {"type": ts}
        if "integer" in ts or "number" in ts:
            n = gen_number_schema(ctx, "integer" in ts)
            n.pop("type")
            if rng.random() < 0.5:
                n["multipleOf"] = rng.choice([3, 7, 4])
            s.update(n)
        if "string" in ts and rng.random() < 0.6:
            s["maxLength"] = rng.choice([1, 2, 4])
        return s
    if r < 0.68:
        s = {"type": "array"}
        if rng.random() < 0.35:
            s["prefixItems"] = [gen_schema(ctx, depth - 1) for _ in range(rng.randint(1, 3))]
            if rng.random() < 0.3:
                # a position nothing can fill (false, or a contradiction): the array has to end before it
                k = rng.randrange(len(s["prefixItems"]))
                s["prefixItems"][k] = False if rng.random() < 0.6 else {"allOf": [{"type": "string"}, {"type": "integer"}]}
            if rng.random() < 0.6:
                s["items"] = gen_schema(ctx, depth - 1) if rng.random() < 0.7 else False
        else:
            s["items"] = gen_schema(ctx, depth - 1)
        lo = rng.choice([0, 0, 1, 2])
        if rng.random() < 0.5:
            s["minItems"] = lo
        if rng.random() < 0.7:
            s["maxItems"] = lo + rng.choice([0, 1, 2, 3])
        return s
    if r < 0.86:
        s = {"type": "object"}
        n = rng.randint(0, 3)
        names = rng.sample(["a", "b", "id", "name", "x y", "é", "k1", "tags"], n)
        if n:
            s["properties"] = {k: (False if rng.random() < 0.06 else gen_schema(ctx, depth - 1)) for k in names}
            req = [k for k in names if rng.random() < 0.6]
            if req:
                s["required"] = req
        x = rng.random()
        if x < 0.45:
            s["additionalProperties"] = False
        elif x < 0.7:
            s["additionalProperties"] = gen_schema(ctx, depth - 1)
        if not ctx.full and rng.random() < 0.25:
            pp = {}
            for pfx, code in rng.sample([("p", 112), ("q", 113), ("x_", None)], rng.randint(1, 2)):
                if code is None:
                    text = "^x_"
                    ast = {"k": "lit", "s": [120, 95]}
                    ae = 0
                else:
                    text = "^%s[0-9]$" % pfx
                    ast = {"k": "cat", "a": [{"k": "lit", "s": [code]}, {"k": "cls", "neg": 0, "cps": list(range(48, 58))}]}
                    ae = 1
                # an unsatisfiable value schema forbids the keys altogether
                pp[text] = False if rng.random() < 0.3 else gen_schema(ctx, depth - 1)
                ctx.pats.append({"text": [ord(c) for c in text], "as": 1, "ae": ae, "ast": ast})
                ctx.key_hints.append(pfx + "1")
            s["patternProperties"] = pp
            if rng.random() < 0.5 and s.get("additionalProperties") is False:
                s["additionalProperties"] = gen_schema(ctx, 0)
        if not ctx.full and rng.random() < 0.15 and set(s.get("required", [])) == set(names):
            lo = len(names) + rng.choice([0, 1])
            s["minProperties"] = lo
            if rng.random() < 0.7:
                s["maxProperties"] = lo + rng.choice([0, 1, 2])
            if s.get("additionalProperties") is False:
                s.pop("additionalProperties")
        return s
    if r < 0.93:
        return {"anyOf": [gen_schema(ctx, depth - 1) for _ in range(rng.randint(2, 3))]}
    if r < 0.96:
        # $ref, possibly recursive
        name = f"d{ctx.ndefs}"
        ctx.ndefs += 1
        if rng.random() < 0.5:
            ctx.defs[name] = {"type": "object", "properties": {"v": gen_schema(ctx, 0),
                              "next": {"anyOf": [{"$ref": f"#/$defs/{name}"}, {"type": "null"}]}},
                              "required": ["v", "next"], "additionalProperties": False}
        else:
            ctx.defs[name] = gen_schema(ctx, depth - 1)
        return {"$ref": f"#/$defs/{name}"}
    if ctx.full:
        return gen_number_schema(ctx, True)
    if r < 0.985:
        a = gen_number_schema(ctx, rng.random() < 0.5)
        b = {"minimum": rng.choice([-2, 0, 4])} if rng.random() < 0.5 else {"maximum": rng.choice([3, 9, 50])}
        if rng.random() < 0.5:
            return {"allOf": [a, b]}
        return dict(a, allOf=[b])
    # keywords the engine does not implement: must be rejected, never silently ignored
    x = rng.random()
    base = gen_schema(ctx, 0)
    if not isinstance(base, dict):
        base = {}
    if x < 0.2:
        return {"not": {"type": "null"}}
    if x < 0.4:
        return {"type": "array", "items": {"type": "integer", "minimum": 0, "maximum": 2}, "uniqueItems": True, "maxItems": 3}
    if x < 0.6:
        return {"type": "array", "contains": {"const": 1}, "items": {"type": "integer", "minimum": 0, "maximum": 2}, "maxItems": 3}
    if x < 0.8:
        return {"if": {"type": "integer"}, "then": {"minimum": 5}, "else": {"type": "string"}}
    return {"oneOf": [{"type": "integer"}, {"type": "number", "minimum": 2}]}


def gen_allof(ctx, depth):
    """an intersection of two schemas of one kind (schema.rs intersect): tuples of different length against `items`,
    string constants against enums / lengths (possibly disjoint: the branch is unsatisfiable), object shapes; written as
    allOf of both, or as sibling keywords plus allOf, in either order"""
    rng = ctx.rng
    k = rng.random()
    if k < 0.4:
        scal = [{"type": "integer"}, {"type": "string"}, {"type": "boolean"}, {"const": 1}, {"type": "integer", "minimum": 0, "maximum": 3}]
        a = {"type": "array", "prefixItems": [rng.choice(scal) for _ in range(rng.randint(1, 3))]}
        if rng.random() < 0.4:
            a["items"] = rng.choice(scal + [False])
        b = {"type": "array", "items": rng.choice(scal)}
        if rng.random() < 0.5:
            b["prefixItems"] = [rng.choice(scal) for _ in range(rng.randint(1, 2))]
        if rng.random() < 0.4:
            b["minItems"] = rng.choice([0, 1, 2])
        if rng.random() < 0.4:
            a["maxItems"] = rng.choice([1, 2, 3])
    elif k < 0.75:
        strs = ["cat", "dog", "bird", "a", "ab", "é"]
        def one():
            x = rng.random()
            if x < 0.35:
                return {"const": rng.choice(strs)}
            if x < 0.75:
                return {"enum": rng.sample(strs, rng.randint(1, 3))}
            if x < 0.9:
                return {"type": "string", "maxLength": rng.choice([1, 2, 3])}
            return {"type": "string", "minLength": rng.choice([2, 3])}
        a, b = one(), one()
    else:
        a = {"type": "object", "properties": {"a": gen_schema(ctx, 0)}, "required": ["a"]}
        b = {"type": "object", "properties": {"a": gen_schema(ctx, 0), "b": gen_schema(ctx, 0)}}
        if rng.random() < 0.5:
            b["additionalProperties"] = False
    if rng.random() < 0.5:
        a, b = b, a
    s = {"allOf": [a, b]} if rng.random() < 0.6 else dict(a, allOf=[b])
    if k >= 0.4 and k < 0.75 and rng.random() < 0.6:
        # in an optional position an unsatisfiable intersection must be dropped, in a required one refused
        return {"type": "object", "properties": {"kind": s, "name": {"type": "string", "maxLength": 3}},
                "required": (["kind"] if rng.random() < 0.3 else []), "additionalProperties": False}
    return s


def allof_family():
    """enumerated intersections (schema.rs intersect), each with candidate instance texts: (name, schema, [texts])
    arrays: a tuple against an `items` schema or a tuple of another length, both operand orders, as allOf or as sibling
    keywords + allOf; strings: constants / enums / length bounds, disjoint ones in optional and required positions"""
    out = []
    I, S, B = {"type": "integer"}, {"type": "string"}, {"type": "boolean"}
    arr_inst = ["[]", "[1]", "[1,2]", '[1,"x"]', '["x"]', '["x","y"]', "[1,2,3]", '[1,2,"x"]', "[true]", "[1,true]", '["x",1]']
    k = 0
    for pre in ([I], [I, I], [S, I], [I, B]):
        for items in (S, I, B, False, None):
            for other in ({"items": S}, {"items": I}, {"prefixItems": [I], "items": S}, {"prefixItems": [S, S, S]}, {"items": B, "minItems": 1}):
                a = {"type": "array", "prefixItems": pre}
                if items is not None:
                    a["items"] = items
                b = dict({"type": "array"}, **other)
                for form in range(4):
                    x, y = (a, b) if form % 2 == 0 else (b, a)
                    s = {"allOf": [x, y]} if form < 2 else dict(x, allOf=[y])
                    out.append((f"allof:arr{k}:{form}", s, arr_inst))
                k += 1
    strs = ["cat", "dog", "bird", "a"]
    cons = [{"const": "cat"}, {"const": "bird"}, {"enum": ["cat", "dog"]}, {"enum": ["dog", "a"]}, {"type": "string", "maxLength": 1},
            {"type": "string", "minLength": 4}]
    k = 0
    for i, x in enumerate(cons):
        for j, y in enumerate(cons):
            if i == j:
                continue
            inner = {"allOf": [x, y]} if (i + j) % 2 == 0 else dict(x, allOf=[y])
            for req in (0, 1):
                s = {"type": "object", "properties": {"kind": inner, "name": {"type": "string", "maxLength": 3}},
                     "required": ["kind"] if req else [], "additionalProperties": False}
                inst = ["{}", '{"name":"x"}'] + ['{"kind":"%s"}' % v for v in strs] + ['{"kind":"%s","name":"x"}' % v for v in strs[:2]]
                out.append((f"allof:str{k}:{req}", s, inst))
            k += 1
    return out


def top_schema(rng, full=False, depth=2):
    ctx = Ctx(rng, full)
    s = gen_schema(ctx, depth)
    if not isinstance(s, dict):
        s = {"const": s}
    if ctx.defs:
        s = dict(s)
        s["$defs"] = ctx.defs
    if rng.random() < 0.25:
        xg = rng.choice([{"whitespace_flexible": False}, {"whitespace_flexible": True},
                         {"whitespace_pattern": "[ \\n]{0,2}"}, {"item_separator": ", ?", "key_separator": ": ?"}])
        s = dict(s)
        s["x-guidance"] = xg
    return s, ctx.pats, ctx.key_hints


# ---------------------------------------------------------------- instances
class RawNum:
    def __init__(self, text):
        self.text = text


def dumps(v):
    """compact serialisation, keys in insertion order, non-ASCII kept (what json.dumps(..,
    separators=(',',':'), ensure_ascii=False) gives), RawNum as literal text"""
    if isinstance(v, RawNum):
        return v.text
    if isinstance(v, dict):
        return "{" + ",".join(json.dumps(k, ensure_ascii=False) + ":" + dumps(x) for k, x in v.items()) + "}"
    if isinstance(v, (list, tuple)):
        return "[" + ",".join(dumps(x) for x in v) + "]"
    if isinstance(v, float):
        t = repr(v)
        if "e" in t or "E" in t or "inf" in t or "nan" in t:
            t = "0"
        return t
    return json.dumps(v, ensure_ascii=False)


def resolve(root, ref):
    cur = root
    for seg in ref.lstrip("#/").split("/"):
        if seg:
            cur = cur[seg]
    return cur


def sample_format(rng, f):
    if f == "date":
        return "20%02d-%02d-%02d" % (rng.randint(0, 30), rng.randint(1, 12), rng.randint(1, 28))
    if f == "time":
        return "%02d:%02d:%02d%s" % (rng.randint(0, 23), rng.randint(0, 59), rng.randint(0, 59), rng.choice(["Z", "+02:00", ".5Z", "-11:30"]))
    if f == "date-time":
        return sample_format(rng, "date") + "T" + sample_format(rng, "time")
    if f == "ipv4":
        return ".".join(str(rng.choice([0, 1, 9, 10, 99, 100, 199, 255])) for _ in range(4))
    if f == "uuid":
        return "-".join("".join(rng.choice("0123456789abcdef") for _ in range(n)) for n in (8, 4, 4, 4, 12))
    return "x"


def gen_instance(rng, s, root, depth=6):
    """a value aimed at validity (not guaranteed; TLA+ judges)"""
    if depth <= 0 or s is True or s == {}:
        return rng.choice([1, "a", None, True])
    if s is False:
        return None
    if "$ref" in s:
        return gen_instance(rng, resolve(root, s["$ref"]), root, depth - 1)
    if "const" in s:
        return s["const"]
    if "enum" in s:
        return rng.choice(s["enum"])
    if "anyOf" in s:
        return gen_instance(rng, rng.choice(s["anyOf"]), root, depth - 1)
    if "allOf" in s:
        merged = {k: v for k, v in s.items() if k != "allOf"}
        for a in s["allOf"]:
            merged.update(a)
        return gen_instance(rng, merged, root, depth - 1)
    t = s.get("type")
    if isinstance(t, list):
        t = rng.choice(t)
    if t is None:
        if "properties" in s or "additionalProperties" in s:
            t = "object"
        elif "items" in s or "prefixItems" in s:
            t = "array"
        elif any(k in s for k in ("minimum", "maximum", "exclusiveMinimum", "exclusiveMaximum", "multipleOf")):
            t = "number"
        elif any(k in s for k in ("minLength", "maxLength", "pattern", "format")):
            t = "string"
        else:
            t = rng.choice(["null", "boolean", "integer", "string"])
    if t == "null":
        return None
    if t == "boolean":
        return rng.random() < 0.5
    if t in ("integer", "number"):
        lo = s.get("minimum", s.get("exclusiveMinimum", -3))
        hi = s.get("maximum", s.get("exclusiveMaximum", lo + 20))
        cands = []
        for b in (lo, hi):
            for d in (-1, 0, 1):
                cands.append(int(b) + d if float(b) == int(b) else b + d)
        cands += [lo, hi, (lo + hi) / 2, int((lo + hi) // 2)]
        import math
        for b in (lo, hi):
            # the integers next to a fractional bound (either sign)
            cands += [math.floor(b), math.ceil(b), math.floor(b) - 1, math.ceil(b) + 1]
        m = s.get("multipleOf")
        if m:
            cands += [m * k for k in range(int(lo // m) - 1, int(lo // m) + 4)] + [m * int(hi // m)]
        v = rng.choice(cands)
        if t == "integer" or (isinstance(v, float) and v == int(v)):
            v = int(v) if float(v) == int(v) else v
        if isinstance(v, float):
            v = round(v, 3)
        return v
    if t == "string":
        if "format" in s:
            return sample_format(rng, s["format"])
        lo = s.get("minLength", 0)
        hi = s.get("maxLength", lo + 3)
        n = rng.choice([lo, hi, rng.randint(min(lo, hi), max(lo, hi))])
        return "".join(chr(rng.choice(STR_ALPHA + [10, 34, 92])) for _ in range(n))
    if t == "array":
        pre = s.get("prefixItems", [])
        lo = s.get("minItems", 0)
        hi = s.get("maxItems", max(lo, len(pre)) + 2)
        n = rng.choice([lo, hi, rng.randint(min(lo, hi), max(lo, hi))])
        out = []
        for i in range(n):
            if i < len(pre):
                out.append(gen_instance(rng, pre[i], root, depth - 1))
            else:
                it = s.get("items", True)
                if it is False:
                    break
                out.append(gen_instance(rng, it, root, depth - 1))
        return out
    if t == "object":
        props = s.get("properties", {})
        req = set(s.get("required", []))
        out = {}
        for k, ps in props.items():
            if k in req or rng.random() < 0.5:
                out[k] = gen_instance(rng, ps, root, depth - 1)
        ap = s.get("additionalProperties", True)
        want = s.get("minProperties", 0)
        extra = 0
        while (ap is not False) and (len(out) < want or (rng.random() < 0.3 and extra < 2)):
            k = rng.choice(["z", "zz", "extra", "q1", "é2"])
            if k in props or k in out:
                k = k + str(extra)
            out[k] = gen_instance(rng, ap if isinstance(ap, dict) else {"type": "integer", "minimum": 0, "maximum": 9}, root, depth - 1)
            extra += 1
        return out
    return None


def mutate(rng, v):
    """small damage so that invalid candidates are exercised too"""
    r = rng.random()
    if isinstance(v, dict) and v:
        k = rng.choice(list(v))
        v = dict(v)
        if r < 0.3:
            v.pop(k)
        elif r < 0.6:
            v[k] = mutate(rng, v[k])
        else:
            v["zzz"] = 1
        return v
    if isinstance(v, list):
        v = list(v)
        if r < 0.4:
            v.append(rng.choice([0, "x", None]))
        elif v and r < 0.7:
            v.pop()
        elif v:
            v[0] = mutate(rng, v[0])
        return v
    if isinstance(v, bool):
        return rng.choice([not v, 0, "true"])
    if isinstance(v, int):
        return rng.choice([v + 1, v - 1, v * 10, str(v), v + 0.5])
    if isinstance(v, float):
        return rng.choice([v + 0.001, -v, int(v)])
    if isinstance(v, str):
        return rng.choice([v + "a", v[:-1], v.upper(), 7, v + "é"])
    return rng.choice([0, "null", False])
