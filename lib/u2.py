"""U2: TLC enumerates all bounded call sequences (spec/MC_Script.tla); the harness replays them on the real
engine (scripted `rel` episodes); TLC validates the recorded traces (spec/Trace_Regex.tla)."""
import json
import os

from . import core, rel, rxgen

CONFIGS = [
    # (a|b)[01]+!?  with tokens spanning lexeme-internal boundaries
    {"name": "ab_digits_bang",
     "rx": {"k": "cat", "a": [{"k": "alt", "a": [{"k": "lit", "s": [97]}, {"k": "lit", "s": [98]}]},
                              {"k": "rep", "a": {"k": "cls", "neg": 0, "cps": [48, 49]}, "m": 1, "n": -1},
                              {"k": "rep", "a": {"k": "lit", "s": [33]}, "m": 0, "n": 1}]},
     "tok": [[97], [98], [48], [49], [33], [97, 48], [48, 49], [49, 33]]},
    # ab|abc : a complete text that can still be extended
    {"name": "ab_abc",
     "rx": {"k": "alt", "a": [{"k": "lit", "s": [97, 98]}, {"k": "lit", "s": [97, 98, 99]}]},
     "tok": [[97], [98], [99], [97, 98], [98, 99]]},
    # forced text then a choice: "key":(1|22)
    {"name": "forced_key",
     "rx": {"k": "cat", "a": [{"k": "lit", "s": [107, 101, 121, 58]}, {"k": "alt", "a": [{"k": "lit", "s": [49]}, {"k": "lit", "s": [50, 50]}]}]},
     "tok": [[107], [101], [121], [58], [49], [50], [107, 101], [121, 58], [58, 50], [50, 50]]},
]


def generate(conf, depth, cap, canonical, wd):
    tok = conf["tok"] + [[255, 60, 97, 62], [255, 60, 124, 101, 110, 100, 124, 62]]
    c = {"rx": conf["rx"], "tok": tok, "eos": len(tok) - 1, "depth": depth, "cap": cap}
    cp = os.path.join(wd, f"conf-{conf['name']}.ndjson")
    open(cp, "w").write(json.dumps(c) + "\n")
    r = core.tlc_generate("MC_Script", workers=4, timeout=3600, extra_env={"CONFIG": cp}, tag=f"u2-{conf['name']}-{depth}")
    voc = {"kind": "list", "words": tok, "eos": len(tok) - 1, "canonical": canonical}
    gram = {"kind": "lark", "text": "start: /" + rxgen.rx_text(conf["rx"]) + "/\n"}
    eps = []
    for k, script in enumerate(r["items"]):
        eps.append({"gid": f"u2:{conf['name']}:{k}", "mode": "U2", "seed": k, "steps": 0, "gram": gram,
                    "cfgs": [{"vocab": voc, "vid": 0, "slices": []}], "w": {}, "log_vocab": 1,
                    "init_extra": {"rx": conf["rx"], "entry": "lark_rx"}, "script": script})
    return r, eps


def run(prop, tier, seed, res, depth=None):
    q = tier == "quick"
    depth = depth or (4 if q else 5)
    wd = core.workdir(f"{prop}-u2-{tier}")
    all_eps = []
    for i, conf in enumerate(CONFIGS):
        r, eps = generate(conf, depth, 3, canonical=(i + seed) % 2, wd=wd)
        res.add_tlc(r)
        res.cov.setdefault("u2_behaviours_generated_by_tlc", 0)
        res.cov["u2_behaviours_generated_by_tlc"] += len(eps)
        all_eps += eps
    if all_eps:
        res.sample({"tlc_generated_script": all_eps[len(all_eps) // 2]["script"]})
    job = {"episodes": all_eps}
    rejects = rel.drive_and_validate(f"{prop}-u2x", tier, seed, job, res, nshards=12 if q else 16, module="Trace_Regex", timeout=7200)
    return rejects
