"""C16: synthetic tokenizer descriptions (byte-level / byte-fallback tokenizer.json, tiktoken ranks)."""
import json


def self_mapped(b):
    return 33 <= b <= 126 or 161 <= b <= 172 or 174 <= b <= 255


def byte_to_cp():
    m, k = {}, 256
    for b in range(256):
        if self_mapped(b):
            m[b] = b
        else:
            m[b] = k
            k += 1
    return m


B2C = byte_to_cp()

HF_TEMPLATE = {"version": "1.0", "truncation": None, "padding": None, "added_tokens": [], "normalizer": None,
               "pre_tokenizer": {"type": "ByteLevel", "add_prefix_space": False, "trim_offsets": True, "use_regex": False},
               "post_processor": None, "decoder": {"type": "ByteLevel", "add_prefix_space": True, "trim_offsets": True, "use_regex": True},
               "model": {"type": "BPE", "dropout": None, "unk_token": None, "continuing_subword_prefix": "",
                         "end_of_word_suffix": "", "fuse_unk": False, "byte_fallback": False, "vocab": {}, "merges": []}}


def texts(rng, alpha):
    out = []
    for _ in range(4):
        n = rng.randint(0, 12)
        out.append([rng.choice(alpha) for _ in range(n)])
    out.append([104, 195, 169, 32, 226, 130, 172, 10, 9, 0, 128, 254, 195])   # incl. invalid UTF-8 tail
    return out


def byte_level_case(rng, kind):
    """all 256 single-byte tokens plus merged tokens; names by the GPT-2 table"""
    words = [[b] for b in range(256)]
    merges = []
    alpha = [97, 98, 32, 195, 169, 10]
    for _ in range(rng.randint(2, 8)):
        a, b = rng.choice(words), rng.choice(words)
        w = a + b
        if len(w) <= 6 and w not in words and all(x in alpha for x in w):
            words.append(w)
            merges.append((a, b))
    names = ["".join(chr(B2C[b]) for b in w) for w in words]
    vocab = {n: i for i, n in enumerate(names)}
    nsp = rng.randint(1, 3)
    special = []
    added = []
    for j in range(nsp):
        nm = ["<|endoftext|>", "<|user|>", "<|x-y|>"][j]
        idx = len(names)
        names.append(nm)
        special.append(idx)
        added.append({"id": idx, "content": nm, "single_word": False, "lstrip": False, "rstrip": False,
                      "normalized": False, "special": True})
    tj = json.loads(json.dumps(HF_TEMPLATE))
    tj["added_tokens"] = added
    tj["model"]["vocab"] = vocab
    tj["model"]["merges"] = [" ".join("".join(chr(B2C[x]) for x in part) for part in m) for m in merges]
    return {"kind": kind, "mode": "byte_level", "json": tj, "names": [[ord(c) for c in n] for n in names],
            "special": special, "space": 32, "texts": texts(rng, alpha + [255 - 1])}


def byte_fallback_case(rng):
    """sentencepiece-style: <0xNN> for all bytes, text pieces with the space replacement character"""
    sp = "▁"
    names = ["<unk>", "<s>", "</s>"] + ["<0x%02X>" % b for b in range(256)]
    pieces = ["a", "b", sp, sp + "a", "ab", "é", "€", sp + sp, "ba" + sp, "😀"]
    rng.shuffle(pieces)
    names += pieces[:rng.randint(3, len(pieces))]
    vocab = {n: i for i, n in enumerate(names)}
    added = [{"id": i, "content": names[i], "single_word": False, "lstrip": False, "rstrip": False, "normalized": False,
              "special": True} for i in range(3)]
    tj = {"version": "1.0", "added_tokens": added,
          "decoder": {"type": "Sequence", "decoders": [{"type": "Replace", "pattern": {"String": sp}, "content": " "},
                                                       {"type": "ByteFallback"}, {"type": "Fuse"}]},
          "model": {"type": "BPE", "vocab": vocab, "merges": [], "byte_fallback": True, "unk_token": "<unk>"}}
    return {"kind": "tj", "mode": "byte_fallback", "json": tj, "names": [[ord(c) for c in n] for n in names],
            "special": [0, 1, 2], "space": ord(sp), "texts": []}


def tiktoken_case(rng):
    words = [[b] for b in range(256)]
    alpha = [97, 98, 32, 104]
    for _ in range(rng.randint(3, 12)):
        w = [rng.choice(alpha) for _ in range(rng.randint(2, 4))]
        if w not in words:
            words.append(w)
    ranks = []
    names = []
    rank = 0
    for w in words:
        if rng.random() < 0.05 and rank > 256:
            names.append([])      # a hole in the rank table
            rank += 1
        ranks.append([w, rank])
        names.append(w)
        rank += 1
    specials = [["<|endoftext|>", rank], ["<|fim|>", rank + 2]]
    names += [[ord(c) for c in "<|endoftext|>"], [], [ord(c) for c in "<|fim|>"]]
    special = [rank, rank + 2]
    n_vocab = rng.choice([None, rank + 3, rank + 6])
    if n_vocab:
        names += [[] for _ in range(n_vocab - len(names))]
    return {"kind": "tiktoken", "mode": "ranks", "ranks": ranks, "specials": specials, "n_vocab": n_vocab, "eos": rank,
            "names": names, "special": special, "space": 32, "texts": texts(rng, alpha)}


def cases(rng, n):
    out = []
    for i in range(n):
        k = i % 4
        if k == 0:
            out.append(byte_level_case(rng, "tj"))
        elif k == 1:
            out.append(byte_level_case(rng, "hf"))
        elif k == 2:
            out.append(byte_fallback_case(rng))
        else:
            out.append(tiktoken_case(rng))
    return out
