"""C16, the trie layout and its branch-free walk (spec/TrieWalk.tla):
 U1  MC_TrieWalk: every vocabulary within a bound, every start string, both walks, every consistent recogniser;
 U2  the finished behaviours of a smaller bound are replayed into the real TokTrie with the same recogniser answers and
     the recogniser calls / results compared one by one;
 U3  random larger vocabularies: the calls recorded from the real TokTrie are validated by Trace_TrieWalk.tla."""
import json
import os
import random

from . import core


def rand_words(rng):
    alpha = rng.choice([[97, 98], [97, 98, 99], [1, 2, 255], [0, 97, 255, 128], list(range(97, 103))])
    n = rng.choice([1, 2, 3, 5, 8, 12, 16])
    words = []
    for _ in range(n):
        x = rng.random()
        if x < 0.08:
            w = []
        elif x < 0.25 and words:
            w = list(rng.choice(words))                       # duplicate
        elif x < 0.5 and words:
            base = list(rng.choice(words))                    # extension / prefix of an earlier token
            w = base + [rng.choice(alpha) for _ in range(rng.randint(1, 2))] if rng.random() < 0.6 else base[:max(0, len(base) - 1)]
        else:
            w = [rng.choice(alpha) for _ in range(rng.choice([1, 1, 2, 2, 3, 4, 6]))]
        words.append(w)
    return words, alpha


def rand_episode(rng, i):
    words, alpha = rand_words(rng)
    x = rng.random()
    ne = [w for w in words if w]
    if x < 0.45 or not ne:
        start = []
    elif x < 0.85:
        w = rng.choice(ne)
        start = w[:rng.randint(1, len(w))]
    else:
        start = [rng.choice(alpha) for _ in range(rng.randint(1, 2))]
    return {"id": i, "words": words, "start": start, "mode": rng.choice(["bias", "bias", "hve"]),
            "seed": rng.randrange(1 << 30), "pct": rng.choice([30, 60, 60, 85, 100])}


def split_calls(lines):
    """[(init, [call events], done)] from a triewalk trace"""
    out = []
    cur = None
    for ln in lines:
        e = json.loads(ln)
        if e["ev"] == "Init":
            cur = [e, [], None]
            out.append(cur)
        elif e["ev"] == "Done":
            cur[2] = e
        else:
            cur[1].append(e)
    return out


def check(tier, seed, res):
    q = tier == "quick"
    wd = core.workdir(f"C16t-{tier}")
    core.build_harness()
    # ---- U1
    u1 = core.tlc_check("MC_TrieWalk", "MC_TrieWalk.cfg" if q else "MC_TrieWalk_thorough.cfg", workers=6 if q else 16,
                        timeout=900 if q else 5400, xmx="3g" if q else "16g", tag="u1-C16t")
    if not u1["ok"]:
        rp = os.path.join(core.REPLAYS, f"C16-{tier}-{seed}-MC_TrieWalk.txt")
        os.makedirs(core.REPLAYS, exist_ok=True)
        open(rp, "w").write(u1.get("tail", ""))
        res.violation({"kind": "MC_TrieWalk invariant", "model": "MC_TrieWalk"}, rp)
        return
    res.add_tlc(u1)
    res.cov["u1_models"].append({"model": "MC_TrieWalk (" + ("alphabet 2, <=3 tokens of <=2 bytes, start <=1" if q else
                                                              "alphabet 2, <=4 tokens of <=3 bytes, start <=1") +
                                          "; both walks; every consistent recogniser)", "distinct_states": u1["distinct"]})
    # ---- U2: TLC's finished behaviours replayed into the implementation
    gen = core.tlc_generate("MC_TrieWalk", "MC_TrieWalk_gen.cfg" if q else "MC_TrieWalk_gen_thorough.cfg", workers=4,
                            timeout=900 if q else 3600, tag="u2-C16t")
    items = gen["items"]
    res.add_tlc(gen)
    jp, tp = os.path.join(wd, "u2job.json"), os.path.join(wd, "u2.ndjson")
    json.dump({"episodes": [{"id": i, "words": it["vocab"], "start": it["start"], "mode": it["mode"], "yes": it["yes"]}
                            for i, it in enumerate(items)]}, open(jp, "w"))
    core.run_bin("triewalk", [jp, tp], timeout=1800)
    got = split_calls(core.read_lines(tp))
    if len(got) != len(items):
        raise core.ToolError(f"triewalk replay: {len(got)} episodes for {len(items)} behaviours")
    bad = 0
    for it, (init, calls, done) in zip(items, got):
        want_calls = [({"ev": "Pop", "n": c[1]} if c[0] == 0 else {"ev": "Push", "b": c[1], "ok": c[2]}) for c in it["calls"]]
        ok = calls == want_calls and done is not None and done["panic"] == 0 and done["underflow"] == 0
        if ok and it["mode"] == "bias":
            ok = sorted(done["toks"]) == sorted(set(it["toks"]) | set(it["pre"]))
        elif ok:
            ok = done["found"] == it["found"]
        if not ok:
            bad += 1
            if bad <= 3:
                rp = os.path.join(core.REPLAYS, f"C16-{tier}-{seed}-u2-{init['id']}.ndjson")
                os.makedirs(core.REPLAYS, exist_ok=True)
                with open(rp, "w") as f:
                    for e in [init] + calls + ([done] if done else []):
                        f.write(json.dumps(e, separators=(",", ":")) + "\n")
                res.violation({"kind": "trie-walk-differs-from-generated-behaviour", "vocab": json.dumps(it["vocab"]),
                               "start": json.dumps(it["start"]), "mode": it["mode"]}, rp)
    res.cov["tlc_behaviours_replayed"] = res.cov.get("tlc_behaviours_replayed", 0) + len(items)
    res.cov["evaluations"] += len(items)
    # ---- U3: random vocabularies, calls validated by the specification
    rng = random.Random(f"C16t-{seed}")
    n = 400 if q else 30000
    nsh = 4 if q else 16
    eps = [rand_episode(rng, i) for i in range(n)]
    shards = [eps[i::nsh] for i in range(nsh)]

    def go(ix):
        j, t = os.path.join(wd, f"job{ix}.json"), os.path.join(wd, f"trace{ix}.ndjson")
        json.dump({"episodes": shards[ix]}, open(j, "w"))
        p = core.run_bin("triewalk", [j, t], timeout=1800)
        st = json.loads(p.stdout.strip().splitlines()[-1])
        return st, core.validate_file("Trace_TrieWalk", t, "C16", tier, seed, timeout=7200, tagbase=f"C16t{ix}"), t

    for ix, (st, tot, t) in enumerate(core.parallel(go, list(range(nsh)), workers=nsh)):
        res.add_validation(tot)
        res.cov["evaluations"] += st["events"]
        res.cov["trie_walk_calls_validated"] = res.cov.get("trie_walk_calls_validated", 0) + st["events"]
        for rj in tot["rejects"]:
            res.violation({"kind": "trie-walk:" + str(rj.get("ev")), "event": rj["event"][:200]}, rj["replay"])
    # ---- negative control: one pop count off by one
    lines = core.read_lines(os.path.join(wd, "trace0.ndjson"))
    for i, ln in enumerate(lines):
        if ln.startswith('{"ev":"Pop","n":2'):
            s, e = core.episode_bounds(lines, i)
            bad_ep = lines[s:i] + ['{"ev":"Pop","n":1}'] + lines[i + 1:e]
            bp = os.path.join(wd, "negctl.ndjson")
            open(bp, "w").write("\n".join(bad_ep) + "\n")
            r = core.tlc_trace("Trace_TrieWalk", bp, tag="neg-C16t")
            okc = (not r["accepted"]) and r.get("reject_at") == i - s + 1
            res.cov["negative_controls"].append({"pop_count_changed_rejected_at_that_call": okc})
            if not okc:
                raise core.ToolError("trie-walk negative control not rejected where expected")
            break
