"""C15: parse Grammar::to_string dumps (before / after optimize()) into rule lists for spec/Trace_Lang2.tla."""
import json
import os
import random
import re

from . import core, corpus, rel, jsgen


def parse_num(t):
    t = t.strip()
    return int(t, 16) if t.lower().startswith("0x") else int(t)


def parse_arg(a):
    a = a.strip()
    if a == "_":
        return {"r": [0, 64]}
    m = re.fullmatch(r"\[(\d+):(\d+)\]", a)
    if m:
        return {"r": [int(m.group(1)), int(m.group(2))]}
    if re.fullmatch(r"(0x[0-9a-fA-F]+|\d+)", a):
        return {"v": parse_num(a)}
    return parse_call(a)


def split_args(s):
    out, depth, cur = [], 0, ""
    for ch in s:
        if ch in "([":
            depth += 1
        if ch in ")]":
            depth -= 1
        if ch == "," and depth == 0:
            out.append(cur)
            cur = ""
        else:
            cur += ch
    if cur.strip():
        out.append(cur)
    return out


def parse_call(t):
    t = t.strip()
    if t == "_":
        return {"f": "self", "a": []}
    if t in ("true", "true()"):
        return {"f": "true", "a": []}
    if re.fullmatch(r"(0x[0-9a-fA-F]+|\d+)", t):
        return {"f": "const", "a": [{"v": parse_num(t)}]}
    m = re.fullmatch(r"(!?)([a-z_]+)\((.*)\)", t, re.S)
    if not m:
        raise ValueError("cannot parse expression: " + t)
    node = {"f": m.group(2), "a": [parse_arg(x) for x in split_args(m.group(3))]}
    if m.group(1):
        node = {"f": "not", "a": [node]}
    return node


def parse_sym(tok):
    if re.fullmatch(r"\[\d+\]", tok):
        return {"k": "t", "t": int(tok[1:-1])}
    if "::" in tok:
        base, p = tok.split("::", 1)
        return {"k": "n", "n": base, "p": parse_call(p)}
    return {"k": "n", "n": tok, "p": {"f": "none", "a": []}}


def tokenize_rhs(s):
    """split on spaces that are not inside parentheses/brackets"""
    out, depth, cur = [], 0, ""
    for ch in s:
        if ch in "([":
            depth += 1
        if ch in ")]":
            depth -= 1
        if ch == " " and depth == 0:
            if cur:
                out.append(cur)
            cur = ""
        else:
            cur += ch
    if cur:
        out.append(cur)
    return out


def bound_for(g):
    """length bound for the language comparison, by number of distinct terminals"""
    ts = {sym["t"] for r in g["rules"] for sym in r["rhs"] if sym["k"] == "t"}
    return 5 if len(ts) <= 8 else (4 if len(ts) <= 14 else 3)


def parse_dump(text):
    rules = []
    lhs = None
    start = None
    for line in text.splitlines():
        if "⇦" not in line:
            continue
        left, right = line.split("⇦", 1)
        if left.strip():
            lhs = left.strip()
        if start is None:
            start = lhs
        cond = {"f": "true", "a": []}
        m = re.search(r"%if (.*?)\s{2,}", right + "   ")
        body = right
        props = ""
        if m:
            cond = parse_call(m.group(1))
            body = right[:right.index("%if")]
            props = (right + "   ")[m.end():].strip()
        else:
            # props follow the right-hand side after two spaces
            parts = re.split(r"\s{2,}", right.strip() + "  ", maxsplit=1)
            body = parts[0]
            props = parts[1].strip() if len(parts) > 1 else ""
        toks = [t for t in tokenize_rhs(body.strip()) if t]
        if "None" in toks or (toks and toks[0].startswith("Some(")):
            continue    # special symbol without rules ("name ⇦ Some(lexeme)  PROPS")
        rhs = [] if toks == ["ϵ"] else [parse_sym(t) for t in toks]
        base = lhs.split("::")[0]
        rules.append({"lhs": base, "rhs": rhs, "cond": cond, "props": props})
    return {"start": (start or "start").split("::")[0], "rules": rules}


def gen_cases(rng, n):
    from . import cfggen
    cases = []
    gs = [g for g in corpus.all_grammars() if g[1]["kind"] in ("lark", "json")] + rel.random_cfg_grammars(rng.randrange(1 << 20), 30)
    # rule-sharing shapes: chains of single-rule symbols, diamonds, specials in the middle of chains, guards
    shapes = [
        'start: a\na: b\nb: c\nc: "x" | d\nd[capture]: e\ne: "y" f\nf: "z"\n',
        'start: l r\nl: m\nr: m\nm: "a" | "b" n\nn: "c"\n',
        'start: a "!"\na[capture]: b\nb: c "-" c\nc: "q"{1,2}\n',
        'start: a b\na: \nb: a "x" a\n',
        'start  : lst::0x0\nlst::_ : "a" lst::incr(_) guard::_ | "e"\nguard::_ : "" %if lt(_, 2)\n',
        'start: cnt::0x0\ncnt::_: "a" mid::_ | "z"\nmid::_: cnt::incr([0:2]) %if lt([0:2], 2)\n',
        'start: p::0x0\np::_: "a" q::set_bit(0) %if bit_clear(0)\n    | "b" q::set_bit(1) %if bit_clear(1)\n    | "."\nq::_: p::_\n',
    ]
    for i in range(n):
        if i < len(shapes):
            cases.append({"gid": f"shape{i}", "gram": {"kind": "lark", "text": shapes[i]}})
        elif rng.random() < 0.3:
            schema, _p, _k = jsgen.top_schema(rng, full=False, depth=rng.choice([1, 2]))
            cases.append({"gid": f"js{i}", "gram": {"kind": "json", "schema": schema}})
        else:
            name, g = rng.choice(gs)
            cases.append({"gid": name, "gram": g})
    return cases


def check(tier, seed):
    res = core.Result("C15", tier, seed)
    rng = random.Random(f"C15-{seed}")
    q = tier == "quick"
    cases = gen_cases(rng, 140 if q else 5000)
    wd = core.workdir(f"C15-{tier}")
    core.build_harness()
    jp = os.path.join(wd, "job.json")
    raw = os.path.join(wd, "raw.ndjson")
    json.dump({"cases": cases}, open(jp, "w"))
    core.run_bin("optdump", [jp, raw], timeout=3600)
    # dumps -> rule lists (the projection; TLC compares the languages)
    nsh = 12 if q else 16
    outs = [open(os.path.join(wd, f"trace{i}.ndjson"), "w") for i in range(nsh)]
    k = 0
    stats = {"dumps": 0, "changed_by_optimizer": 0, "not_compiled": 0, "unparsed": 0, "optimizer_panics": 0}
    gid = None
    for ln in core.read_lines(raw):
        ev = json.loads(ln)
        if ev["ev"] == "Init":
            gid = ev.get("gid")
            continue
        if ev["ok"] != 1:
            if ev.get("panic") == 1:
                stats["optimizer_panics"] += 1
                o = outs[k % nsh]
                o.write(json.dumps({"ev": "Init", "gid": gid}, separators=(",", ":")) + "\n" +
                        json.dumps({"ev": "OptPanic", "gid": gid}, separators=(",", ":")) + "\n")
                k += 1
            else:
                stats["not_compiled"] += 1
            continue
        try:
            pre, post = parse_dump(ev["pre"]), parse_dump(ev["post"])
        except Exception:
            stats["unparsed"] += 1
            continue
        stats["dumps"] += 1
        if ev["pre"] != ev["post"]:
            stats["changed_by_optimizer"] += 1
        o = outs[k % nsh]
        o.write(json.dumps({"ev": "Init", "gid": gid}, separators=(",", ":")) + "\n" +
                json.dumps({"ev": "Opt", "gid": gid, "n": bound_for(pre), "pre": pre, "post": post}, separators=(",", ":")) + "\n")
        k += 1
    for o in outs:
        o.close()

    def go(ix):
        tp = os.path.join(wd, f"trace{ix}.ndjson")
        return core.validate_file("Trace_Lang2", tp, "C15", tier, seed, timeout=7200, tagbase=f"C15{ix}"), tp

    for ix, (tot, tp) in enumerate(core.parallel(go, list(range(nsh)), workers=nsh)):
        res.add_validation(tot)
        for rj in tot["rejects"]:
            m = re.search(r'"gid": ?"([^"]*)"', rj["init"])
            kind = "optimizer-panic" if '"OptPanic"' in rj["event"][:40] else "language-or-specials-differ"
            res.violation({"kind": kind, "gid": m.group(1) if m else None}, rj["replay"])
        if ix == 0:
            for ln in core.read_lines(tp)[1:2]:
                res.sample(json.loads(ln))
    # negative control: drop one alternative of the optimised grammar: the languages must differ
    for ln in core.read_lines(os.path.join(wd, "trace0.ndjson")):
        if '"ev":"Opt"' in ln[:12]:
            ev = json.loads(ln)
            # drop the last rule whose removal is visible from the start symbol: one of the start symbol's own rules
            # (several candidates are tried: within the length bound some alternatives contribute no word)
            own = [i for i, r in enumerate(ev["post"]["rules"]) if r["lhs"] == ev["post"]["start"]]
            if own:
                del ev["post"]["rules"][own[-1]]
                bp = os.path.join(wd, "negctl.ndjson")
                open(bp, "w").write('{"ev":"Init"}\n' + json.dumps(ev, separators=(",", ":")) + "\n")
                r = core.tlc_trace("Trace_Lang2", bp, tag="neg-C15")
                if not r["accepted"]:
                    res.cov["negative_controls"].append({"dropped_rule_rejected": True})
                    break
    if not res.cov["negative_controls"]:
        raise core.ToolError("negative control: no mutilated grammar was rejected")
    res.cov.update(stats)
    res.cov["evaluations"] = stats["dumps"]
    res.cov["distinct_nontrivial"] = stats["changed_by_optimizer"]
    res.cov["rule"] = ("cases = grammars the Lark / JSON-schema front ends produce (corpus, random EBNF grammars, random schemas, "
                       "rule-sharing shapes incl. parametric guards); Grammar::to_string before and after Grammar::optimize() is "
                       "parsed into rule lists; TLC computes both languages over terminal ids up to length N (parametric "
                       "nonterminals instantiated by value) and compares them, and checks that every symbol with a capture / "
                       "token limit / stop-capture survives with its properties; distinct_nontrivial = grammars the optimiser changed")
    return res
