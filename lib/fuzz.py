"""C20: arbitrary / mutated / adversarial inputs and random call sequences under tight and default limits;
outcome protocol validated by TLC (spec/Lifecycle.tla).  Crashes, aborts and time-outs of the driver process
are attributed to the case that was running."""
import json
import os
import random
import re
import subprocess

from . import core, corpus, jsgen, rel

TIGHT = {"max_items_in_row": 50, "initial_lexer_fuel": 20000, "step_lexer_fuel": 5000, "step_max_items": 500,
         "max_lexer_states": 300, "max_grammar_size": 2000}


def mutate_text(rng, t):
    t = list(t)
    for _ in range(rng.randint(1, 4)):
        op = rng.random()
        if not t:
            t = list("start: \"a\"")
        i = rng.randrange(len(t))
        if op < 0.25:
            del t[i:i + rng.randint(1, 4)]
        elif op < 0.5:
            t[i:i] = list(rng.choice(['"', "(", ")", "[", "]", "{", "}", "|", "*", "+", "?", "/", "\\", "%", "<", ">", "&", "~", ":", ",",
                                      "\n", "0", "9999999", "é", "\u0000", "::", "{3,2}", "{99999}", "%if ", "[lazy]", "<[-1]>"]))
        elif op < 0.7:
            j = rng.randrange(len(t))
            t[i], t[j] = t[j], t[i]
        elif op < 0.85:
            seg = t[i:i + rng.randint(1, 12)]
            t[i:i] = seg * rng.randint(1, 3)
        else:
            t[i] = chr(rng.randrange(1, 0x2FF))
    return "".join(t)


ADVERSARIAL = [
    ("lark", "deep_parens", "start: " + "(" * 400 + '"a"' + ")" * 400 + "\n"),
    ("lark", "deep_opt", "start: " + "(" * 150 + '"a"' + ")?" * 150 + "\n"),
    ("lark", "long_alt", "start: " + " | ".join('"w%d"' % i for i in range(3000)) + "\n"),
    ("lark", "huge_rep", 'start: "a"{100000}\n'),
    ("lark", "huge_rep2", 'start: ("a"{1000}){1000}\n'),
    ("lark", "huge_rx_rep", "start: /a{100000}/\n"),
    ("lark", "nested_rx_rep", "start: /((a{50}){50}){50}/\n"),
    ("lark", "left_cycle", "start: a\na: a | b\nb: a\n"),
    ("lark", "undefined", "start: nothere\n"),
    ("lark", "tok_oob", 'start: <[99999999]> "a"\n'),
    ("lark", "tok_neg", "start: <[5-2]>\n"),
    ("lark", "bad_json", "start: %json {\"type\": \n"),
    ("lark", "bad_regex_node", 'start: T\nT: %regex {"substring_chars": 5}\n'),
    ("lark", "param_big", "start: a::0xFFFFFFFFFFFFFFFF\na::_: \"x\" a::incr(_) %if lt(_, 0xFFFFFFFFFFFFFFFF)\n    | \"y\"\n"),
    ("lark", "param_field_top", 'start: c::0x0\nc::_: "a" c::incr([60:64])\n    | "X" %if ge([60:64], 15)\n'),
    ("lark", "param_field_mid", 'start: c::0x0\nc::_: "a" c::incr([3:6]) | "b" c::incr([0:3]) | "." %if ge([3:6], 7)\n'),
    ("lark", "many_rules", "start: r0\n" + "".join("r%d: r%d | \"x\"\n" % (i, i + 1) for i in range(1500)) + 'r1500: "y"\n'),
    ("lark", "empty", ""),
    ("lark", "nul", "start: \"\u0000\"\n"),
    ("lark", "rx_lookaround", "start: /a(?=b)/\n"),
    ("lark", "rx_backref", r"start: /(a)\1/" + "\n"),
    ("lark", "rx_unicode_class", r"start: /\p{L}+\d{2,}/" + "\n"),
    ("lark", "rx_bomb", "start: /(a*)*b/\n"),
    ("lark", "and_not_deep", "start: T\nT: " + " & ".join("~/a{%d}/" % i for i in range(1, 40)) + "\n"),
    ("regex", "rx_top_bomb", "(a|aa)*" * 30 + "b"),
    ("regex", "rx_bad", "(unclosed[a-"),
    ("regex", "rx_huge_class", "[" + "".join(chr(c) for c in range(0x100, 0x800)) + "]+"),
    ("json", "ref_self", '{"$ref":"#"}'),
    ("json", "ref_loop", '{"$defs":{"a":{"$ref":"#/$defs/b"},"b":{"$ref":"#/$defs/a"}},"$ref":"#/$defs/a"}'),
    ("json", "ref_missing", '{"$ref":"#/$defs/nope"}'),
    ("json", "deep_arrays", "{" + '"type":"array","items":{' * 200 + '"type":"null"' + "}" * 200 + "}"),
    ("json", "big_multiple", '{"type":"integer","multipleOf":4294967296}'),
    ("json", "tiny_multiple", '{"type":"number","multipleOf":1e-30}'),
    ("json", "lcm_overflow", '{"type":"integer","allOf":[{"multipleOf":65536},{"multipleOf":65537}]}'),
    ("json", "huge_bounds", '{"type":"integer","minimum":-1e400,"maximum":1e400}'),
    ("json", "huge_lengths", '{"type":"string","minLength":100000,"maxLength":100001}'),
    ("json", "huge_items", '{"type":"array","items":{"type":"integer"},"minItems":50000}'),
    ("json", "big_enum", '{"enum":[' + ",".join('"v%d"' % i for i in range(5000)) + "]}"),
    ("json", "not_json", "{type: object"),
    ("json", "weird_types", '{"type":["string",7,null]}'),
    ("json", "pattern_bad", '{"type":"string","pattern":"(unclosed"}'),
    ("json", "format_unknown", '{"type":"string","format":"no-such-format"}'),
    ("json", "neg_lengths", '{"type":"string","minLength":-5,"maxLength":-1}'),
    ("json", "float_lengths", '{"type":"array","minItems":1.5}'),
    ("json", "props_many", '{"type":"object","properties":{' + ",".join('"p%d":{"type":"integer"}' % i for i in range(800)) + "}}"),
]

KNOWN_CASES = [
    {"gid": "kf:force-bytes-loop", "kind": "lark", "text": 'start: A "a"\nA: /a+/\n', "limits": None, "ncalls": 3, "seed": 1, "secs": 6},
    {"gid": "kf:stop-backtrack-panic", "kind": "lark",
     "text": 'start: with_stop "<end>" /[0-9]+/\nwith_stop[capture, stop="<end>"]: /.*/\n', "limits": None, "ncalls": 0, "seed": 1,
     "script": [97, 98, 60, 101, 110, 100]},
]


def gen_cases(rng, n):
    base = []
    for name, g in corpus.all_grammars() + corpus.ext_grammars():
        if g["kind"] == "json":
            base.append(("json", name, json.dumps(g["schema"])))
        else:
            base.append((g["kind"], name, g["text"]))
    cases = list(KNOWN_CASES)
    for kind, name, text in ADVERSARIAL:
        for lim in (None, TIGHT):
            cases.append({"gid": "adv:" + name + (":tight" if lim else ""), "kind": kind, "text": text, "limits": lim,
                          "ncalls": 70 if name.startswith("param") else 6, "seed": rng.randrange(1 << 30), "secs": 30})
            if name in ("param_field_top", "param_field_mid"):
                # drive the counter field to saturation first
                cases[-1]["script"] = [97] * (16 if name == "param_field_top" else 8)
    # the TokenParser session on unmutated grammars (many start with forced text, which process_prompt() turns into
    # history tokens): rollbacks into those tokens, reset, fast-forward tokens
    for _ in range(max(40, n // 8)):
        kind, name, text = rng.choice(base)
        cases.append({"gid": "tp:" + name, "kind": kind, "text": text, "limits": None, "ncalls": rng.randint(8, 20),
                      "seed": rng.randrange(1 << 30), "secs": 30, "tp": 1, "tp_only": 1})
    while len(cases) < n:
        r = rng.random()
        if r < 0.6:
            kind, name, text = rng.choice(base)
            text = mutate_text(rng, text)
            gid = "mut:" + name
        elif r < 0.75:
            schema, _p, _k = jsgen.top_schema(rng, full=False, depth=rng.choice([1, 2, 3]))
            kind, text, gid = "json", mutate_text(rng, json.dumps(schema)) if rng.random() < 0.5 else json.dumps(schema), "genjs"
        elif r < 0.9:
            kind, name, text = rng.choice(base)
            gid = "orig:" + name
        else:
            kind = rng.choice(["lark", "json", "regex"])
            text = "".join(chr(rng.choice([rng.randrange(32, 127), rng.randrange(1, 0x400)])) for _ in range(rng.randint(0, 60)))
            gid = "noise"
        cases.append({"gid": gid, "kind": kind, "text": text, "limits": rng.choice([None, None, TIGHT]),
                      "ncalls": rng.randint(4, 16), "seed": rng.randrange(1 << 30), "secs": 30})
        if rng.random() < 0.45:
            # also through the TokenParser session (process_prompt, rollbacks into the prompt, reset, ff tokens)
            cases[-1]["tp"] = 1
    return cases


def run_shard(wd, ix, cases, profile, timeout):
    """run the driver; on a crash / time-out attribute it to the running case and continue after it"""
    jp = os.path.join(wd, f"job{ix}.json")
    json.dump({"cases": cases}, open(jp, "w"))
    tp = os.path.join(wd, f"trace{ix}.ndjson")
    open(tp, "w").close()
    d = core.build_harness(profile)
    first = 0
    crashes = []
    while first < len(cases):
        part = os.path.join(wd, f"part{ix}-{first}.ndjson")
        try:
            p = subprocess.run([os.path.join(d, "robust"), jp, part, str(first)], stdout=subprocess.PIPE, stderr=subprocess.PIPE,
                               text=True, timeout=timeout)
            rc = p.returncode
            err = p.stderr[-400:]
        except subprocess.TimeoutExpired:
            rc, err = -999, "shard time-out"
        lines = core.read_lines(part) if os.path.exists(part) else []
        with open(tp, "a") as f:
            for ln in lines:
                f.write(ln + "\n")
        if rc == 0:
            break
        # the culprit: the last case that began but did not end
        cur = None
        for ln in lines:
            if ln.startswith('{"ev":"Begin"'):
                cur = json.loads(ln)["i"]
            elif ln.startswith('{"ev":"End"'):
                cur = None
        if cur is None:
            crashes.append({"i": first, "rc": rc, "err": err, "gid": "?"})
            break
        what = "Timeout" if rc in (-14, 142) or rc == -999 else "Crash"
        with open(tp, "a") as f:
            f.write(json.dumps({"ev": what, "i": cur, "rc": rc}, separators=(",", ":")) + "\n")
        crashes.append({"i": cur, "rc": rc, "err": err, "gid": cases[cur]["gid"], "what": what})
        first = cur + 1
    return tp, crashes


def check(tier, seed):
    res = core.Result("C20", tier, seed, level="exploration")
    rng = random.Random(f"C20-{seed}")
    q = tier == "quick"
    cases = gen_cases(rng, 420 if q else 12000)
    wd = core.workdir(f"C20-{tier}")
    nsh = 12 if q else 16
    profiles = ["release", "checked"]
    for profile in profiles:
        core.build_harness(profile)
        # quick tier: the build with overflow checks / debug assertions only sees the adversarial and known cases
        pc = cases if (profile == "release" or not q) else [c for c in cases if c["gid"].startswith(("adv:", "kf:"))]
        shards = [pc[i::nsh] for i in range(nsh)]

        def go(ix):
            tp, crashes = run_shard(wd, f"{profile}{ix}", shards[ix], profile, 1800 if q else 14400)
            tot = core.validate_file("Trace_Lifecycle", tp, "C20", tier, seed, timeout=7200, tagbase=f"C20{profile}{ix}", max_rejects=8)
            return tot, tp, crashes

        for ix, (tot, tp, crashes) in enumerate(core.parallel(go, list(range(nsh)), workers=nsh)):
            res.add_validation(tot)
            res.cov["evaluations"] += tot["events"]
            for rj in tot["rejects"]:
                m = re.search(r'"gid":"((?:[^"\\]|\\.)*)"', rj["init"])
                ev = re.search(r'"ev":"(\w+)"', rj["event"])
                cls = re.search(r'"cls":"(\w*)"', rj["event"])
                name = re.search(r'"name":"(\w*)"', rj["event"])
                res.violation({"gid": m.group(1) if m else None, "ev": ev.group(1) if ev else None, "cls": cls.group(1) if cls else None,
                               "call": name.group(1) if name else None, "profile": profile}, rj["replay"])
            res.cov["process_crashes_or_timeouts"] = res.cov.get("process_crashes_or_timeouts", 0) + len(crashes)
            if ix == 0 and profile == "release":
                for ln in core.read_lines(tp)[1:6]:
                    res.sample(json.loads(ln))
    res.cov["distinct_nontrivial"] = len({c["text"] for c in cases})
    res.cov["rule"] = ("cases = byte strings offered as Lark grammar / JSON schema / regex: the corpus, random mutations of it, "
                       "generated schemas, noise, and adversarial nesting / sizes (deep parentheses, long alternations, huge "
                       "repetitions, recursive $ref, huge multipleOf / bounds / enums), under default and tight limits, each "
                       "followed by a random sequence of legal and illegal Matcher calls; the driver process has CPU-time "
                       "alarms and an address-space limit; TLC checks the outcome protocol (spec/Lifecycle.tla): reported "
                       "error or documented stop only, failures stick, time budget kept; a panic after construction, a crash "
                       "or a time-out has no action")
    res.assumptions += ["the search is random testing; the specification contributes the outcome alphabet and stickiness",
                        "arithmetic overflow is observable only in the thorough tier (profile with overflow checks)"]
    return res
