"""C06 / C07: schemas -> jsonwalk driver (outputs via masks, candidate instances) -> Trace_Json."""
import json
import os
import random
import re

from . import core, corpus, jsgen, rel, vocabs


def vocab_choice(rng):
    r = rng.random()
    if r < 0.35:
        return vocabs.byte(0)
    if r < 0.7:
        return {"kind": "lang", "canonical": 0, "n_multi": rng.choice([60, 120]), "maxlen": rng.choice([3, 5])}
    return vocabs.bpe(rng.choice([300, 800]), 0)


def episodes(prop, seed, n, full, outputs, n_inst, budget=70):
    rng = random.Random(f"{prop}-js-{seed}")
    eps = []
    fixed = [(n_, s_) for n_, s_ in corpus.SCHEMAS] + [(n_, g["schema"]) for n_, g in corpus.repo_samples()]
    for i in range(n):
        if i < len(fixed) and not full:
            name, schema = fixed[i]
            pats = []
            if "pattern" in json.dumps(schema):
                # corpus patterns come without an AST: `pattern` is then not asserted by the spec
                pats = []
        else:
            schema, pats, khints = jsgen.top_schema(rng, full=full, depth=rng.choice([1, 2, 2, 3]))
            name = f"s{i}"
        text = json.dumps(schema, ensure_ascii=False)
        if i < len(fixed) and not full:
            khints = []
        insts = []
        for _ in range(n_inst):
            v = jsgen.gen_instance(rng, schema, schema)
            if rng.random() < 0.3:
                v = jsgen.mutate(rng, v)
            insts.append({"text": jsgen.dumps(v)})
        for t in corpus.EXTRA_INSTANCES.get(name, []):
            insts.append({"text": t})
        g = {"kind": "json", "schema": schema}
        eps.append({"gid": name, "schema_text": text, "pats": pats, "vocab": vocab_choice(rng), "outputs": outputs,
                    "budget": budget, "seed": rng.randrange(1 << 30), "instances": insts,
                    "hints": rel.hints_for(g) + [list(json.dumps(k).encode()) for k in khints], "slices": rng.choice([[], "default"])})
    if prop == "C06":
        # enumerated intersections (allOf of tuples / items, of string constants), each with a list of candidate texts
        fam = jsgen.allof_family()
        for name, schema, texts in (rng.sample(fam, 70) if n < 1000 else fam):
            eps.append({"gid": name, "schema_text": json.dumps(schema), "pats": [], "vocab": vocab_choice(rng), "outputs": 3,
                        "budget": budget, "seed": rng.randrange(1 << 30), "instances": [{"text": t} for t in texts],
                        "hints": [list(b'"kind"')], "slices": []})
    if prop == "C07":
        # integers in narrow windows with fractional / exclusive bounds of either sign (jsgen.tight_integer_family): every
        # integer in and next to the window is offered, so a bound that is off by one is a wrongly refused instance
        import math
        fam = jsgen.tight_integer_family()
        for name, schema in (rng.sample(fam, 60) if n < 1000 else fam):
            ns = schema["properties"]["n"]
            lo = ns.get("minimum", ns.get("exclusiveMinimum"))
            hi = ns.get("maximum", ns.get("exclusiveMaximum"))
            insts = [{"text": '{"n":%d}' % k} for k in range(math.floor(lo) - 1, math.ceil(hi) + 2)]
            eps.append({"gid": name, "schema_text": json.dumps(schema), "pats": [], "vocab": vocab_choice(rng), "outputs": 1,
                        "budget": budget, "seed": rng.randrange(1 << 30), "instances": insts, "hints": [], "slices": []})
    return eps


def run(prop, tier, seed, eps, res, nshards=12, timeout=3600):
    wd = core.workdir(f"{prop}-{tier}")
    core.build_harness()
    shards = [eps[i::nshards] for i in range(nshards) if eps[i::nshards]]

    def go(ix):
        jp = os.path.join(wd, f"job{ix}.json")
        tp = os.path.join(wd, f"trace{ix}.ndjson")
        with open(jp, "w") as f:
            json.dump({"episodes": shards[ix]}, f)
        p = core.run_bin("jsonwalk", [jp, tp], timeout=timeout)
        stats = json.loads(p.stdout.strip().splitlines()[-1])
        tot = core.validate_file("Trace_Json", tp, prop, tier, seed, timeout=timeout, tagbase=f"{prop}{ix}", max_rejects=6,
                                 extra_env={"JVIEW": prop if prop in ("C06", "C07") else "all"})
        return stats, tot, tp

    outs = core.parallel(go, list(range(len(shards))), workers=nshards)
    rejects = []
    agg = {}
    for ix, (stats, tot, tp) in enumerate(outs):
        res.add_validation(tot)
        for k, v in stats.items():
            agg[k] = agg.get(k, 0) + v
        rejects += tot["rejects"]
        if ix == 0:
            for ln in core.read_lines(tp)[:6]:
                ev = json.loads(ln)
                ev.pop("schema", None)
                ev.pop("b", None)
                res.sample(ev)
    res.cov["driver"] = agg
    res.cov["evaluations"] += agg.get("outputs", 0) + agg.get("instances", 0)
    return rejects


def signature(rj):
    m = re.search(r'"stext":"((?:[^"\\]|\\.)*)"', rj["init"])
    t = re.search(r'"text":"((?:[^"\\]|\\.)*)"', rj["event"])
    return {"kind": rj.get("ev"), "schema": (m.group(1) if m else "")[:300], "text": (t.group(1) if t else "")[:200]}


def explain(replay):
    r = core.tlc("Trace_Json", None, workers=1, trace=replay, tag="explain-json", extra_env={"EXPLAIN": "1"})
    flat = " ".join(r["out"].split())
    m = re.search(r'<< ?"WHY", "(\w+)", "parse-ok", (TRUE|FALSE), "valid", (TRUE|FALSE), "canonical", (TRUE|FALSE), '
                  r'"valid-with-escaped-keys-apart", (TRUE|FALSE), "valid-with-feb29-every-year", (TRUE|FALSE)', flat)
    if not m:
        return {}
    return {"ev": m.group(1), "parse_ok": m.group(2), "valid": m.group(3), "canonical": m.group(4), "valid_keys_apart": m.group(5),
            "valid_feb29": m.group(6)}


def classify(rj):
    sig = signature(rj)
    d = explain(rj["replay"])
    sig.update(d)
    sig["class"] = "other"
    if d.get("ev") in ("Output", "Instance") and d.get("parse_ok") == "TRUE" and d.get("valid") == "FALSE" \
            and d.get("valid_keys_apart") == "TRUE":
        sig["class"] = "escaped-key-treated-as-different-key"
    elif d.get("ev") in ("Output", "Instance") and d.get("parse_ok") == "TRUE" and d.get("valid") == "FALSE" \
            and d.get("valid_feb29") == "TRUE":
        sig["class"] = "february-29-in-a-non-leap-year"
    return sig


def xcheck(res, seed, n):
    """the specification itself against Python jsonschema (a check OF the spec, not of the code)"""
    import subprocess
    wd = os.path.join(core.WORK, "xcheck")
    os.makedirs(wd, exist_ok=True)
    tp = os.path.join(wd, f"x{seed}.ndjson")
    p = subprocess.run([os.path.join(core.VERIF, "tools", "xcheck_json.py"), str(seed), str(n), tp],
                       stdout=subprocess.PIPE, stderr=subprocess.PIPE, text=True)
    if p.returncode != 0:
        raise core.ToolError("xcheck_json failed: " + p.stderr[-800:])
    r = core.tlc_trace("Trace_Json", tp, tag="xcheck-json")
    res.add_tlc(r)
    st = json.loads(p.stdout.strip().splitlines()[-1])
    res.cov["spec_crosscheck_vs_python_jsonschema"] = dict(st, accepted=r["accepted"])
    if not r["accepted"]:
        raise core.ToolError(f"spec/JsonSchema.tla disagrees with Python jsonschema at event {r.get('reject_at')} of {tp}")


def check(prop, tier, seed):
    res = core.Result(prop, tier, seed)
    if prop == "C06":
        n, outs, insts = (140, 6, 3) if tier == "quick" else (4000, 16, 6)
        eps = episodes(prop, seed, n, False, outs, insts)
    else:
        n, outs, insts = (140, 1, 12) if tier == "quick" else (4000, 2, 40)
        eps = episodes(prop, seed, n, True, outs, insts)
    xcheck(res, seed, 120 if tier == "quick" else 1500)
    rejects = run(prop, tier, seed, eps, res, nshards=12 if tier == "quick" else 16, timeout=7200)
    for rj in rejects:
        res.violation(classify(rj), rj["replay"])
    res.cov["distinct_nontrivial"] = len({e["schema_text"] for e in eps})
    res.cov["rule"] = ("episodes = one JSON schema each (generated over the documented keywords + corpus); Output = a "
                       "complete output reached by a random walk through the engine's own masks (3 vocabulary kinds); "
                       "Instance = a schema-directed candidate text with the engine's verdict; TLC parses every text with "
                       "its own RFC 8259 parser and decides validity with spec/JsonSchema.tla; the spec itself is "
                       "cross-checked against Python jsonschema; distinct = distinct schemas")
    res.assumptions += ["TLC", "harness jsonwalk driver", "Python jsonschema only as a cross-check of the specification",
                        "patterns without a supplied AST and formats other than date/time/date-time/ipv4/uuid are not asserted"]
    # negative control under the property's own view.  C06: an Output that is not well-formed must be rejected;
    # C07: a valid canonical instance the engine admitted, recorded as refused, must be rejected
    wd = os.path.join(core.WORK, f"{prop}-{tier}")
    lines = core.read_lines(os.path.join(wd, "trace0.ndjson"))
    env = {"JVIEW": prop}
    done = False
    tried = 0
    for i, ln in enumerate(lines):
        if prop == "C06" and '"ev":"Output"' in ln[:30]:
            ev = json.loads(ln)
            ev["b"] = ev["b"] + [93]      # a stray ']' : not well-formed
        elif prop == "C07" and '"ev":"Instance"' in ln[:30] and '"acc":1' in ln:
            ev = json.loads(ln)
            ev["acc"] = 0
        else:
            continue
        s0, _e = core.episode_bounds(lines, i)
        bp = os.path.join(wd, "negctl.ndjson")
        open(bp, "w").write("\n".join(lines[s0:i] + [json.dumps(ev)]) + "\n")
        r = core.tlc_trace("Trace_Json", bp, tag=f"neg-{prop}", extra_env=env)
        ok = (not r["accepted"]) and r.get("reject_at") == i - s0 + 1
        tried += 1
        if ok:
            res.cov["negative_controls"].append({"corrupted_event": ev["ev"], "rejected_at": r.get("reject_at"), "as_expected": True,
                                                 "view": prop})
            done = True
            break
        if prop == "C06" or tried >= 8:
            break
    if tried and not done:
        raise core.ToolError("negative control not rejected")
    return res
