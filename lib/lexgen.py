"""Grammars over NAMED terminals that overlap (spec/LexParse.tla, Trace_Lex.tla): lexemes are greedy regexes over a
small alphabet (keywords that are prefixes of each other, identifier-like classes that contain the keywords, bounded
repetitions); the grammar is an EBNF over lexeme ids.  Not one of the listed properties: conformance of the
implementation's lexer / parser interplay with its specification."""
import json
import random

from . import cfggen, rxgen, vocabs


def lit(s):
    return {"k": "lit", "s": [ord(c) for c in s]}


def cls(s, neg=0):
    return {"k": "cls", "neg": neg, "cps": sorted(ord(c) for c in s)}


def rep(a, m, n):
    return {"k": "rep", "a": a, "m": m, "n": n}


def cat(*a):
    return {"k": "cat", "a": list(a)}


def alt(*a):
    return {"k": "alt", "a": list(a)}


def pool(rng):
    """a family of overlapping lexemes over a 3-5 letter alphabet"""
    letters = rng.choice(["ab", "abc", "ab0", "abc01"])
    a, b = letters[0], letters[1]
    cands = [
        lit(a), lit(b), lit(a + b), lit(a + b + a), lit(a + a), lit(b + a), lit(a + b + b),
        rep(cls(letters), 1, -1), rep(cls(a + b), 1, -1), rep(lit(a), 1, -1), rep(lit(a + b), 1, -1),
        cat(lit(a), rep(lit(b), 0, -1)), cat(rep(lit(a), 0, -1), lit(b)), cat(lit(a), rep(cls(letters), 0, 2)),
        cat(cls(a + b), rep(cls(letters), 0, -1)), rep(cls(letters), 2, 3), rep(lit(a), 2, 4),
        alt(lit(a + b), lit(b + a)), alt(lit(a), cat(lit(b), rep(lit(a), 1, -1))),
        cat(lit(a), rep(lit(b), 0, 1), lit(a)), cat(lit(a + b), rep(cls(letters), 1, 1)),
    ]
    if "0" in letters:
        cands += [rep(cls("01" if "1" in letters else "0"), 1, -1), cat(lit("0"), rep(cls(letters), 0, -1)),
                  cat(rep(cls(a + "0"), 1, -1), lit(b))]
    if rng.random() < 0.4:
        # a random non-nullable regex: one fixed first character, then anything
        alpha = [ord(c) for c in letters]
        cands.append(cat(cls(rng.choice(letters)), rxgen.r_node(rng, alpha, rng.randint(1, 4), icase_ok=False)))
    k = rng.randint(2, 5)
    out = []
    seen = set()
    for c in rng.sample(cands, min(k, len(cands))):
        t = rxgen.rx_text(c)
        if t not in seen:
            seen.add(t)
            out.append(c)
    return out, letters


def rand_item(rng, nts, nlex, depth):
    x = rng.random()
    if depth >= 2 or x < 0.5:
        if rng.random() < 0.35 and nts:
            return {"k": "ref", "n": rng.choice(nts)}
        return {"k": "tok", "ids": [rng.randrange(nlex)]}
    if x < 0.62:
        return {"k": "opt", "a": rand_item(rng, nts, nlex, depth + 1)}
    if x < 0.74:
        return {"k": "star", "a": rand_item(rng, nts, nlex, depth + 1)}
    if x < 0.82:
        return {"k": "plus", "a": rand_item(rng, nts, nlex, depth + 1)}
    if x < 0.9:
        m = rng.choice([0, 1, 2])
        return {"k": "rep", "a": rand_item(rng, nts, nlex, depth + 1), "m": m, "n": rng.choice([m, m + 1, m + 2])or 1}
    return {"k": "group", "alts": [[rand_item(rng, nts, nlex, depth + 1) for _ in range(rng.randint(1, 2))]
                                   for _ in range(rng.randint(1, 3))]}


def rand_grammar(rng):
    lexemes, letters = pool(rng)
    n = rng.randint(1, 3)
    nts = ["start"] + [f"n{i}" for i in range(1, n)]
    rules = []
    for nt in nts:
        alts = []
        for _ in range(rng.randint(1, 3)):
            ln = rng.choice([0, 1, 2, 2, 3]) if nt != "start" else rng.choice([1, 2, 2, 3])
            alts.append([rand_item(rng, nts, len(lexemes), 0) for _ in range(ln)])
        rules.append({"lhs": nt, "alts": alts})
    g = {"start": "start", "rules": rules, "lexemes": lexemes}
    if rng.random() < 0.3:
        # `%ignore` of a lexeme that may overlap the others (its id is the last one)
        a = letters[0]
        cand = rng.choice([rep(cls(" "), 1, -1), rep(cls(" " + letters[-1]), 1, -1), rep(lit(letters[-1]), 1, -1),
                           lit(letters[-1]), cat(lit(" "), rep(lit(a), 0, 1))])
        if rxgen.rx_text(cand) not in {rxgen.rx_text(x) for x in lexemes}:
            g["lexemes"] = lexemes + [cand]
            g["skip"] = len(lexemes)
            if " " not in letters:
                letters = letters + " "
    if rng.random() < 0.35:
        # `T[lazy]`: the lexeme ends at the first byte at which it matches (ids of lazy lexemes; never the ignored one)
        n_own = len(lexemes)
        g["lazy"] = sorted(rng.sample(range(n_own), rng.choice([1, 1, 2]) if n_own > 1 else 1))
    return g, letters


_LAZY = set()


def lark_item(it):
    k = it["k"]
    if k == "tok":
        # a lazy lexeme is written as a RULE with the `lazy` attribute (docs/syntax.md "Lazy lexemes")
        return ("l%d" if it["ids"][0] in _LAZY else "T%d") % it["ids"][0]
    if k == "ref":
        return it["n"]
    if k == "opt":
        return "(" + lark_item(it["a"]) + ")?"
    if k == "star":
        return "(" + lark_item(it["a"]) + ")*"
    if k == "plus":
        return "(" + lark_item(it["a"]) + ")+"
    if k == "rep":
        return "(" + lark_item(it["a"]) + "){%d,%d}" % (it["m"], it["n"])
    if k == "group":
        return "(" + " | ".join(" ".join(lark_item(x) for x in alt) or '""' for alt in it["alts"]) + ")"
    raise ValueError(k)


def lark_text(g):
    lines = []
    _LAZY.clear()
    _LAZY.update(g.get("lazy", []))
    for r in g["rules"]:
        lines.append(r["lhs"] + ": " + " | ".join(" ".join(lark_item(x) for x in alt) or '""' for alt in r["alts"]))
    for i, lx in enumerate(g["lexemes"]):
        if i == g.get("skip", -1):
            lines.append("%%ignore /%s/" % rxgen.rx_text(lx))
        else:
            lines.append(("l%d[lazy]: /%s/" if i in _LAZY else "T%d: /%s/") % (i, rxgen.rx_text(lx)))
    return "\n".join(lines) + "\n"


def reduced(g):
    """conservative: every nonterminal reachable and productive, every lexeme used (cfggen's check on the same shape)"""
    g2 = {"start": g["start"], "rules": [{"lhs": r["lhs"], "alts": [[_as_cfg(x) for x in alt] for alt in r["alts"]]} for r in g["rules"]]}
    used = set()

    def walk(it):
        if it["k"] == "tok":
            used.update(it["ids"])
        elif it["k"] in ("opt", "star", "plus", "rep"):
            walk(it["a"])
        elif it["k"] == "group":
            for alt in it["alts"]:
                for x in alt:
                    walk(x)
    for r in g["rules"]:
        for alt in r["alts"]:
            for x in alt:
                walk(x)
    return cfggen.is_reduced(g2) and used == set(range(len(g["lexemes"]))) - {g.get("skip", -1)}


def _as_cfg(it):
    k = it["k"]
    if k == "tok":
        return {"k": "cls", "s": [120]}
    if k in ("opt", "star", "plus"):
        return {"k": k, "a": _as_cfg(it["a"])}
    if k == "rep":
        return {"k": "rep", "a": _as_cfg(it["a"]), "m": it["m"], "n": it["n"]}
    if k == "group":
        return {"k": "group", "alts": [[_as_cfg(x) for x in alt] for alt in it["alts"]]}
    return it


def job(tag, seed, n, w):
    rng = random.Random(f"{tag}-lex-{seed}")
    eps = []
    tries = 0
    while len(eps) < n and tries < n * 40:
        tries += 1
        g, letters = rand_grammar(rng)
        if not reduced(g):
            continue
        ab = sorted(set(ord(c) for c in letters) | {122})
        multi = set()
        for _ in range(rng.choice([10, 20, 30])):
            multi.add(tuple(rng.choice(ab[:-1]) for _ in range(rng.randint(2, 4))))
        canonical = 1 if rng.random() < 0.3 else 0
        voc = vocabs.small_exact(ab, sorted(multi), canonical)
        eps.append({"gid": f"lex{tries}", "mode": tag, "seed": rng.randrange(1 << 30), "steps": rng.randint(6, 14),
                    "gram": {"kind": "lark", "text": lark_text(g)}, "cfgs": [{"vocab": voc, "vid": 0, "slices": []}],
                    "w": dict(w), "eos_pct": rng.choice([10, 25]), "log_vocab": 1, "init_extra": {"lex": g}})
        if len(ab) <= 6 and rng.random() < 0.3:
            from .exact import add_dfs
            add_dfs(eps[-1], len(ab), rng, budget=600)
    return {"episodes": eps}
