"""Parametric Lark grammars (docs/parametric.md) for C05 exact mode: random instances of the documented
shapes (permutation, at-least-once, bounded counters, a*b* with a length bound, pick k of n) plus random
mixtures; every grammar comes as Lark text and as the JSON read by spec/CfgP.tla.  Terminals have pairwise
different first bytes (same restriction as cfggen)."""
from .cfggen import TERMINAL_POOLS, term_item

NONE = {"f": "none", "a": []}
SELF = {"f": "self", "a": []}
TRUE = {"f": "true", "a": []}
ALL = [0, 64]


def const(v):
    return {"f": "const", "a": [{"v": v}]}


def fn_k(f, k):
    return {"f": f, "a": [{"v": k}]}


def fn_r(f, r):
    return {"f": f, "a": [{"r": list(r)}]}


def cmp_(f, r, v):
    return {"f": f, "a": [{"r": list(r)}, {"v": v}]}


def and_(a, b):
    return {"f": "and", "a": [a, b]}


def or_(a, b):
    return {"f": "or", "a": [a, b]}


def not_(a):
    return {"f": "not", "a": [a]}


def ref(n, p=NONE):
    return {"k": "ref", "n": n, "p": p}


def rng_text(r):
    return "_" if list(r) == ALL else f"[{r[0]}:{r[1]}]"


def expr_text(e, rng=None):
    f = e["f"]
    if f == "self":
        return "_"
    if f == "const":
        v = e["a"][0]["v"]
        return hex(v) if (rng and rng.random() < 0.5) else str(v)
    if f in ("set_bit", "clear_bit", "bit_and", "bit_or"):
        return f"{f}({e['a'][0]['v']})"
    return f"{f}({rng_text(e['a'][0]['r'])})"


def cond_text(c):
    f = c["f"]
    if f == "true":
        return "true"
    if f in ("bit_clear", "bit_set"):
        return f"{f}({c['a'][0]['v']})"
    if f in ("is_ones", "is_zeros"):
        return f"{f}({rng_text(c['a'][0]['r'])})"
    if f in ("and", "or"):
        return f"{f}({cond_text(c['a'][0])}, {cond_text(c['a'][1])})"
    if f == "not":
        return f"not({cond_text(c['a'][0])})"
    return f"{f}({rng_text(c['a'][0]['r'])}, {c['a'][1]['v']})"


def lit_text(b):
    out = ""
    for x in bytes(b).decode():
        if x in '"\\':
            out += "\\" + x
        else:
            out += x
    return '"' + out + '"'


def item_text(it, rng=None):
    if it["k"] == "lit":
        return lit_text(it["b"])
    if it["k"] == "cls":
        return "/[" + "".join(chr(x) for x in it["s"]) + "]/"
    if it["p"]["f"] == "none":
        return it["n"]
    return f"{it['n']}::{expr_text(it['p'], rng)}"


def lark_text(g, rng=None):
    lines = []
    for r in g["rules"]:
        head = r["lhs"] + ("::_" if r["param"] else "")
        alts = []
        for a in r["alts"]:
            s = " ".join(item_text(it, rng) for it in a["seq"]) or '""'
            if a["cond"]["f"] != "true":
                s += "  %if " + cond_text(a["cond"])
            alts.append(s)
        lines.append(f"{head}: " + "\n    | ".join(alts))
    return "\n".join(lines) + "\n"


def spec_json(g):
    return {"start": g["start"],
            "rules": [{"lhs": r["lhs"], "alts": [{"cond": a["cond"], "seq": a["seq"]} for a in r["alts"]]} for r in g["rules"]]}


SPICE = [0]          # probability (percent) of rewriting a guard into an equivalent, more convoluted one


def spice(c, rng):
    """an equivalent condition built with true / not / and / or (the documented functions)"""
    x = rng.random()
    if x < 0.25:
        return not_(not_(c))
    if x < 0.5:
        return and_(c, TRUE) if rng.random() < 0.5 else and_(TRUE, c)
    if x < 0.75:
        return or_(c, not_(TRUE)) if rng.random() < 0.5 else or_(not_(TRUE), c)
    return not_(or_(not_(c), not_(TRUE)))


def alt(seq, cond=TRUE):
    return {"cond": cond, "seq": seq}


def spice_grammar(g, rng, pct):
    """rewrite some guards (never `true` itself: an unguarded alternative stays unguarded); now and then add an
    alternative that can never be taken (guard not(true)) next to an existing one"""
    for r in g["rules"]:
        if not r["param"]:
            continue
        extra = []
        for a in r["alts"]:
            if a["cond"]["f"] != "true" and rng.randrange(100) < pct:
                a["cond"] = spice(a["cond"], rng)
            if rng.randrange(100) < pct // 3:
                extra.append({"cond": not_(TRUE) if rng.random() < 0.5 else and_(not_(TRUE), a["cond"]), "seq": [] if rng.random() < 0.5 else list(a["seq"])})
        r["alts"] += extra
    return g


def _terms(rng, k):
    pool = rng.choice([p for p in TERMINAL_POOLS if len(p) >= k] or TERMINAL_POOLS)
    return [term_item(t) for t in rng.sample(pool, min(k, len(pool)))]


def g_perm(rng):
    k = rng.randint(2, 4)
    ts = _terms(rng, k)
    k = len(ts)
    base = rng.choice([0, 0, 2, 5])
    once = rng.random() < 0.6          # permutation vs "each at least once"
    alts = [alt([], fn_r("is_ones", [base, base + k]))]
    for i, t in enumerate(ts):
        alts.append(alt([t, ref("perm", fn_k("set_bit", base + i))], fn_k("bit_clear", base + i) if once else TRUE))
    return {"start": "start", "rules": [{"lhs": "start", "param": False, "alts": [alt([ref("perm", const(0))])]},
                                        {"lhs": "perm", "param": True, "alts": alts}]}


def g_count(rng):
    k = rng.randint(1, 3)
    ts = _terms(rng, k)
    k = len(ts)
    width = rng.choice([2, 3])
    alts = []
    for i, t in enumerate(ts):
        r = [i * width, (i + 1) * width]
        bound = rng.randint(1, (1 << width) - 1)
        op = rng.choice(["lt", "lt", "le", "ne"])
        alts.append(alt([t, ref("lst", fn_r("incr", r))], cmp_(op, r, bound)))
    endc = TRUE
    if rng.random() < 0.4:
        endc = cmp_(rng.choice(["ge", "gt", "eq"]), [0, width], rng.randint(0, 2))
    alts.append(alt([], endc))
    rng.shuffle(alts)
    return {"start": "start", "rules": [{"lhs": "start", "param": False, "alts": [alt([ref("lst", const(0))])]},
                                        {"lhs": "lst", "param": True, "alts": alts}]}


def g_bounded_ab(rng):
    ts = _terms(rng, 2)
    n = rng.randint(1, 5)
    return {"start": "start", "rules": [
        {"lhs": "start", "param": False, "alts": [alt([ref("aa", const(0))])]},
        {"lhs": "aa", "param": True, "alts": [alt([ts[0], ref("aa", fn_r("incr", ALL))], cmp_("lt", ALL, n)), alt([ref("bb", SELF)])]},
        {"lhs": "bb", "param": True, "alts": [alt([ts[1], ref("bb", fn_r("incr", ALL))], cmp_("lt", ALL, n)), alt([])]}]}


def g_pick(rng):
    k = rng.randint(3, 5)
    ts = _terms(rng, k)
    k = len(ts)
    lo = rng.randint(0, 2)
    hi = rng.randint(max(lo, 1), k)
    alts = [alt([], cmp_("bit_count_ge", ALL, lo))]
    for i, t in enumerate(ts):
        alts.append(alt([t, ref("perm", fn_k("set_bit", i))], and_(fn_k("bit_clear", i), cmp_("bit_count_lt", ALL, hi))))
    return {"start": "start", "rules": [{"lhs": "start", "param": False, "alts": [alt([ref("perm", const(0))])]},
                                        {"lhs": "perm", "param": True, "alts": alts}]}


def g_countdown(rng):
    """decr / const start / is_zeros / bit_or / bit_and / clear_bit / not / or"""
    ts = _terms(rng, 3)
    n = rng.randint(1, 6)
    alts = [alt([ts[0], ref("cd", fn_r("decr", [0, 3]))], not_(fn_r("is_zeros", [0, 3]))),
            alt([ts[1 % len(ts)]], fn_r("is_zeros", [0, 3]))]
    if len(ts) > 2 and rng.random() < 0.6:
        # a one-off detour that sets a flag bit and may be taken once
        alts.append(alt([ts[2], ref("cd", fn_k("bit_or", 8))], or_(cmp_("eq", [3, 4], 0), fn_k("bit_set", 6))))
        alts.append(alt([ts[2], ts[2], ref("cd", fn_k("bit_and", 7))], fn_k("bit_set", 3)))
    return {"start": "start", "rules": [{"lhs": "start", "param": False, "alts": [alt([ref("cd", const(n))])]},
                                        {"lhs": "cd", "param": True, "alts": alts}]}


def g_nested(rng):
    """a parametric list inside a plain wrapper with an un-parameterised helper rule and a nullable instance"""
    ts = _terms(rng, 4)
    while len(ts) < 4:
        ts.append(ts[0])
    n = rng.randint(1, 3)
    return {"start": "start", "rules": [
        {"lhs": "start", "param": False, "alts": [alt([ts[0], ref("body", const(0)), ts[1]]), alt([ref("unit")])]},
        {"lhs": "body", "param": True, "alts": [alt([ref("unit"), ref("body", fn_r("incr", [0, 4]))], cmp_("lt", [0, 4], n)),
                                                 alt([ref("maybe", SELF)])]},
        {"lhs": "maybe", "param": True, "alts": [alt([], cmp_("ge", [0, 4], 1)), alt([ts[3]])]},
        {"lhs": "unit", "param": False, "alts": [alt([ts[2]]), alt([ts[2], ts[3]])]}]}


def g_atleast(rng):
    """saturating counters: 'at least 2^w - 1 (or v) of each' -- increments stay enabled once the field is full"""
    k = rng.randint(1, 3)
    ts = _terms(rng, k)
    k = len(ts)
    base = rng.choice([0, 1, 3])
    alts = []
    endc = None
    x = base
    for i, t in enumerate(ts):
        w = rng.choice([1, 2, 2])
        r = [x, x + w]
        x += w
        alts.append(alt([t, ref("lst", fn_r("incr", r))]))
        c = fn_r("is_ones", r) if rng.random() < 0.5 else cmp_("ge", r, rng.randint(1, (1 << w) - 1))
        endc = c if endc is None else and_(endc, c)
    alts.append(alt([], endc))
    rng.shuffle(alts)
    return {"start": "start", "rules": [{"lhs": "start", "param": False, "alts": [alt([ref("lst", const(0))])]},
                                        {"lhs": "lst", "param": True, "alts": alts}]}


def g_updown(rng):
    """a balance that may go up and down, saturating at both ends, in a field that does not start at bit 0"""
    ts = _terms(rng, 3)
    while len(ts) < 3:
        ts.append(ts[0])
    x = rng.choice([0, 2, 4])
    w = rng.choice([1, 2])
    r = [x, x + w]
    low = rng.choice([0, 0, 3]) if x >= 2 else 0         # bits below the field, set by the start constant
    endc = rng.choice([fn_r("is_zeros", r), cmp_("eq", r, 1), TRUE])
    alts = [alt([ts[0], ref("bal", fn_r("incr", r))]), alt([ts[1], ref("bal", fn_r("decr", r))]), alt([ts[2]], endc)]
    return {"start": "start", "rules": [{"lhs": "start", "param": False, "alts": [alt([ref("bal", const(low))])]},
                                        {"lhs": "bal", "param": True, "alts": alts}]}


def g_nullpair(rng):
    """adjacent references to instances that may be empty (completion of an instance already finished in the same
    Earley set), a guarded single-alternative symbol passed through with ::_, and a nullable tail"""
    ts = _terms(rng, 3)
    while len(ts) < 3:
        ts.append(ts[0])
    n = rng.randint(1, 3)
    return {"start": "start", "rules": [
        {"lhs": "start", "param": False, "alts": [alt([ref("pair", const(0))])]},
        {"lhs": "pair", "param": True, "alts": [alt([ref("opt", SELF), ref("opt", fn_k("set_bit", 1)), ts[0], ref("tail", SELF)])]},
        {"lhs": "opt", "param": True, "alts": [alt([], fn_k("bit_clear", 1) if rng.random() < 0.5 else cmp_("le", [0, 4], 3)), alt([ts[1]])]},   # (a parametric rule must use its parameter)
        {"lhs": "tail", "param": True, "alts": [alt([ref("item", SELF), ref("tail", fn_r("incr", ALL))]), alt([])]},
        {"lhs": "item", "param": True, "alts": [alt([ts[2]], cmp_("lt", ALL, n))]}]}


def g_twoinst(rng):
    """several instances of one symbol predicted at the same position with different continuations: finishing
    sel::p must only advance the items that were waiting for sel with that very value"""
    ts = _terms(rng, 5)
    while len(ts) < 5:
        ts.append(ts[len(ts) % 2])
    k1, k2 = rng.sample([0, 1, 2, 3, 5, 6], 2)
    sel_alts = [alt([ts[2]], fn_k("bit_set", 0)), alt([ts[3]], fn_k("bit_clear", 0))]
    if rng.random() < 0.6:
        sel_alts.append(alt([ts[4]] if len(ts) > 4 else [ts[2], ts[2]], cmp_("ge", [1, 3], 1)))
    if rng.random() < 0.4:
        sel_alts.append(alt([ts[2], ref("sel", fn_r("decr", [0, 3]))], cmp_("gt", [0, 3], 4)))
    starts = [alt([ref("sel", const(k1)), ts[0]]), alt([ref("sel", const(k2)), ts[1]])]
    if rng.random() < 0.4:
        starts.append(alt([ref("sel", const(k1 ^ 1)), ts[1], ts[0]]))
    return {"start": "start", "rules": [{"lhs": "start", "param": False, "alts": starts},
                                        {"lhs": "sel", "param": True, "alts": sel_alts}]}


def g_nullchain(rng):
    """chains of symbols that are empty under conditions of the parameter, directly and through deeper symbols
    (conditional nullability is a fix-point over DNFs of the guards); the start rule uses several values"""
    k = rng.randint(2, 5)
    ts = _terms(rng, k + 2)
    while len(ts) < k + 2:
        ts.append(ts[len(ts) % 2])
    bits = [0, 1, 2]

    def atom():
        b = rng.choice(bits)
        return fn_k("bit_set" if rng.random() < 0.65 else "bit_clear", b)

    # "implication-rich": most guards are one atom A or A strengthened by another atom, and the chain is straight
    rich = rng.random() < 0.6
    base = atom()

    def cond():
        x = rng.random()
        if rich:
            return base if x < 0.4 else (and_(base, atom()) if x < 0.8 else atom())
        if x < 0.45:
            return atom()
        if x < 0.8:
            return and_(atom(), atom())
        if x < 0.9:
            return or_(atom(), and_(atom(), atom()))
        return cmp_(rng.choice(["ge", "le", "eq"]), [0, 3], rng.randint(0, 7))

    rules = []
    order = list(range(k))
    for i in order:
        alts = []
        if rng.random() < (0.5 if rich else 0.7) or i == k - 1:
            alts.append(alt([], cond()))
        if i < k - 1:
            nxt = i + 1 if rich else rng.randint(i + 1, k - 1)
            alts.append(alt([ref(f"s{nxt}", SELF)], cond() if rng.random() < 0.3 else TRUE))
            if rng.random() < 0.3 and i + 2 <= k - 1:
                alts.append(alt([ref(f"s{i + 1}", SELF), ref(f"s{rng.randint(i + 1, k - 1)}", fn_k("set_bit", rng.choice(bits)))]))
        alts.append(alt([ts[i]]))
        rng.shuffle(alts)
        rules.append({"lhs": f"s{i}", "param": True, "alts": alts})
    starts = []
    for _ in range(rng.randint(1, 3)):
        j = rng.choice([0, 0, 1]) if k > 1 else 0
        starts.append(alt([ref(f"s{j}", const(rng.randint(0, 7))), ts[k + rng.randint(0, 1)]]))
    return {"start": "start", "rules": [{"lhs": "start", "param": False, "alts": starts}] + rules}


def nullable_family_member(k, guards, v):
    """s0 -> s1 -> .. -> s(k-1); s_i may be empty under guards[i] in {None, 'A', 'B', 'AB', 'nA'} (A = bit 0 set,
    B = bit 1 set); start: s0::v "!".  Whether "!" may come first depends on the conditional nullability of the chain."""
    pool = [term_item(t) for t in [("lit", "a"), ("lit", "b"), ("lit", "c"), ("lit", "d"), ("lit", "e"), ("lit", "f")]]
    G = {"A": fn_k("bit_set", 0), "B": fn_k("bit_set", 1), "AB": and_(fn_k("bit_set", 0), fn_k("bit_set", 1)),
         "nA": fn_k("bit_clear", 0)}
    rules = [{"lhs": "start", "param": False, "alts": [alt([ref("s0", const(v)), term_item(("lit", "!"))])]}]
    for i in range(k):
        alts = []
        if guards[i] is not None:
            alts.append(alt([], G[guards[i]]))
        if i < k - 1:
            alts.append(alt([ref(f"s{i + 1}", SELF)]))
        alts.append(alt([pool[i]]))
        rules.append({"lhs": f"s{i}", "param": True, "alts": alts})
    return {"start": "start", "rules": rules}


def nullable_family(k):
    import itertools
    for guards in itertools.product([None, "A", "B", "AB", "nA"], repeat=k):
        if guards[-1] is None:
            continue            # the last symbol must use its parameter
        for v in range(4):
            yield nullable_family_member(k, guards, v)


SHAPES = [g_nullchain, g_nullchain, g_twoinst, g_twoinst, g_nullpair, g_atleast, g_atleast, g_updown, g_perm, g_perm, g_count, g_count, g_bounded_ab, g_pick, g_countdown, g_nested]


def rand_grammar(rng):
    g = rng.choice(SHAPES)(rng)
    if rng.random() < 0.35:
        g = spice_grammar(g, rng, 40)
    return g


def alphabet(g):
    ab = set()
    for r in g["rules"]:
        for a in r["alts"]:
            for it in a["seq"]:
                if it["k"] == "lit":
                    ab |= set(it["b"])
                elif it["k"] == "cls":
                    ab |= set(it["s"])
    return sorted(ab)


def derive(g, rng, fuel=40):
    """a random word (bytes) of the language, or None; evaluates parameters with Python ints (driver-side only)"""
    def ev(e, p):
        f = e["f"]
        a = e["a"]
        M = (1 << 64) - 1
        if f == "self":
            return p
        if f == "none":
            return 0
        if f == "const":
            return a[0]["v"]
        if f == "set_bit":
            return p | (1 << a[0]["v"])
        if f == "clear_bit":
            return p & ~(1 << a[0]["v"]) & M
        if f == "bit_and":
            return p & a[0]["v"]
        if f == "bit_or":
            return p | a[0]["v"]
        x, y = a[0]["r"]
        fld = (p >> x) & ((1 << (y - x)) - 1)
        if f == "incr":
            return p if fld == (1 << (y - x)) - 1 else p + (1 << x)
        return p if fld == 0 else p - (1 << x)

    def cd(c, p):
        f = c["f"]
        a = c["a"]
        if f == "true":
            return True
        if f == "bit_clear":
            return (p >> a[0]["v"]) & 1 == 0
        if f == "bit_set":
            return (p >> a[0]["v"]) & 1 == 1
        if f == "and":
            return cd(a[0], p) and cd(a[1], p)
        if f == "or":
            return cd(a[0], p) or cd(a[1], p)
        if f == "not":
            return not cd(a[0], p)
        x, y = a[0]["r"]
        fld = (p >> x) & ((1 << (y - x)) - 1)
        if f == "is_ones":
            return fld == (1 << (y - x)) - 1
        if f == "is_zeros":
            return fld == 0
        v = a[1]["v"]
        if f.startswith("bit_count_"):
            fld = bin(fld).count("1")
            f = f[len("bit_count_"):]
        return {"eq": fld == v, "ne": fld != v, "lt": fld < v, "le": fld <= v, "gt": fld > v, "ge": fld >= v}[f]

    rules = {r["lhs"]: r for r in g["rules"]}
    budget = [fuel]

    def go(n, p, depth):
        budget[0] -= 1
        if budget[0] < 0 or depth > 30:
            return None
        alts = [a for a in rules[n]["alts"] if cd(a["cond"], p)]
        if not alts:
            return None
        # prefer short alternatives when the budget runs low
        a = rng.choice(alts) if budget[0] > fuel // 2 else min(alts, key=lambda z: len(z["seq"]))
        out = []
        for it in a["seq"]:
            if it["k"] == "lit":
                out += it["b"]
            elif it["k"] == "cls":
                out.append(rng.choice(it["s"]))
            else:
                sub = go(it["n"], ev(it["p"], p), depth + 1)
                if sub is None:
                    return None
                out += sub
        return out
    return go(g["start"], 0, 0)


def lang_tokens(g, rng, n_multi=24, maxlen=4):
    toks = set()
    for _ in range(60):
        w = derive(g, rng)
        if not w:
            continue
        for _ in range(4):
            ln = rng.randint(2, maxlen)
            if len(w) >= ln:
                i = rng.randrange(0, len(w) - ln + 1)
                toks.add(tuple(w[i:i + ln]))
        if len(toks) >= n_multi:
            break
    return sorted(toks)[:n_multi]
