"""C19: grammars mixing text and token references over vocabularies whose special-token names
overlap grammar text; the TLA+ side gets resolved id sets (spec/Trace_Tok.tla)."""
import random

from . import cfggen

SPECIAL_NAMES = ["<a>", "<|tool|>", "<[3]>", "<b>", "<|a|>", "<ab>", "<|end|>"]   # EOS = last


def make_vocab(rng, alpha, canonical=0):
    words = [[b] for b in sorted(set(alpha) | set(b"<>|[]a3b"))]
    multi = set()
    for s in ["<a", "a>", "<|", "|>", "<a>", "[3]", "<[3", "ab", "ba", "<b>", "tool", "<|a"]:
        multi.add(tuple(s.encode()))
    for _ in range(8):
        multi.add(tuple(rng.choice(alpha) for _ in range(rng.randint(2, 3))))
    words += [list(m) for m in sorted(multi)]
    first_special = len(words)
    for nm in SPECIAL_NAMES:
        words.append([0xFF] + list(nm.encode()))
    return {"kind": "list", "words": words, "eos": len(words) - 1, "canonical": canonical}, first_special


def tok_item(rng, voc, first_special):
    """returns (lark text, id list); never contains the EOS id"""
    n = len(voc["words"])
    eos = voc["eos"]
    specials = list(range(first_special, n - 1))
    r = rng.random()
    if r < 0.3:
        t = rng.choice(specials)
        name = bytes(voc["words"][t][1:]).decode()
        if name.startswith("<["):
            # a special token whose NAME looks like the numeric syntax can only be named by its id
            return "<[%d]>" % t, [t]
        return name, [t]
    if r < 0.5:
        t = rng.choice(specials + [rng.randrange(0, first_special)])
        return "<[%d]>" % t, [t]
    if r < 0.8:
        a = rng.randrange(0, n - 1)
        b = min(n - 2, a + rng.randint(0, 4))
        parts = [(a, b)]
        if rng.random() < 0.4:
            c = rng.randrange(0, n - 1)
            parts.append((c, c))
        if rng.random() < 0.3 and b > a:
            # a range nested in / overlapping the first one, listed after or before it
            c = rng.randint(a, b)
            parts.insert(rng.randint(0, len(parts)), (c, min(n - 2, c + rng.randint(0, 2))))
        txt = ",".join("%d-%d" % p if p[0] != p[1] else "%d" % p[0] for p in parts)
        ids = sorted({x for (lo, hi) in parts for x in range(lo, hi + 1)})
        return "<[%s]>" % txt, ids
    if r < 0.93:
        # negated list: everything else, including (by its denotation) the EOS id
        a = rng.randrange(0, n - 1)
        b = min(n - 1, a + rng.randint(0, 6))
        parts = [(a, b)]
        # more ranges in the list, in any order: nested in the first, overlapping it, adjacent to it, or elsewhere
        for _ in range(rng.choice([0, 0, 1, 1, 2])):
            k = rng.random()
            if k < 0.4 and b > a:
                c = rng.randint(a, b)
                d = rng.randint(c, b)
            elif k < 0.6:
                c = rng.randint(a, b)
                d = min(n - 1, b + rng.randint(0, 3))
            elif k < 0.75:
                c = min(n - 1, b + 1)
                d = min(n - 1, c + rng.randint(0, 2))
            else:
                c = rng.randrange(0, n - 1)
                d = min(n - 1, c + rng.randint(0, 3))
            parts.insert(rng.randint(0, len(parts)), (c, d))
        if rng.random() < 0.25:
            # the whole text range first, then something inside it
            parts = \
                [(0, first_special - 1), (lambda c: (c, min(first_special - 1, c + rng.randint(0, 2))))(rng.randrange(0, first_special))]
        ids = [x for x in range(n) if not any(lo <= x <= hi for lo, hi in parts)]
        txt = ",".join("%d-%d" % p if p[0] != p[1] else "%d" % p[0] for p in parts)
        return "<[^%s]>" % txt, ids
    return "<[*]>", list(range(n))


def rand_grammar(rng, voc, first_special):
    alpha_terms = [("lit", "a"), ("lit", "<a>"), ("lit", "b"), ("cls", "xy"), ("lit", "<|"), ("lit", "[3]")]
    # terminals must keep pairwise different first bytes
    terms = []
    seen = set()
    for t in rng.sample(alpha_terms, len(alpha_terms)):
        fb = set(t[1].encode()) if t[0] == "cls" else {t[1].encode()[0]}
        if not (fb & seen):
            terms.append(t)
            seen |= fb
    nts = ["start", "n1"]
    rules = []
    texts = {}

    used = []   # token sets already in the grammar: a new one must be identical or disjoint (overlapping
                # token-identity terminals are 'confusable' terminals: the engine scans only one of them)

    def item(depth):
        x = rng.random()
        if x < 0.12 and depth == 0:
            # alternatives that are all token references (a range next to single tokens, either order)
            n = len(voc["words"])
            lo = rng.randrange(0, n - 8)
            rg = list(range(lo, lo + rng.randint(2, 4)))
            single = [x for x in range(n - 1) if x not in rg]
            s1 = [rng.choice(single)]
            cands = [("<[%d-%d]>" % (rg[0], rg[-1]), rg), ("<[%d]>" % s1[0], s1)]
            if all(all(set(ids) == set(u) or not (set(ids) & set(u)) for u in used) for _t, ids in cands):
                rng.shuffle(cands)
                for _t, ids in cands:
                    used.append(ids)
                return {"k": "group", "alts": [[{"k": "tok", "ids": ids, "text": t}] for t, ids in cands]}
        if x < 0.35:
            for _ in range(8):
                txt, ids = tok_item(rng, voc, first_special)
                if all(set(ids) == set(u) or not (set(ids) & set(u)) for u in used):
                    used.append(ids)
                    return {"k": "tok", "ids": ids, "text": txt}
            return cfggen.term_item(rng.choice(terms))
        if x < 0.65 or depth > 1:
            return cfggen.term_item(rng.choice(terms))
        if x < 0.75:
            return {"k": "ref", "n": "n1"}
        if x < 0.85:
            return {"k": "opt", "a": item(depth + 1)}
        if x < 0.93:
            return {"k": "star", "a": item(depth + 1)}
        return {"k": "group", "alts": [[item(depth + 1)] for _ in range(2)]}

    for nt in nts:
        alts = []
        for _ in range(rng.randint(1, 3)):
            alts.append([item(0) for _ in range(rng.randint(1, 3))])
        rules.append({"lhs": nt, "alts": alts})
    return {"start": "start", "rules": rules}


def lark_item(it):
    if it["k"] == "tok":
        return it["text"]
    if it["k"] in ("opt", "star", "plus"):
        return "(" + lark_item(it["a"]) + ")" + {"opt": "?", "star": "*", "plus": "+"}[it["k"]]
    if it["k"] == "group":
        return "(" + " | ".join(" ".join(lark_item(x) for x in alt) for alt in it["alts"]) + ")"
    return cfggen.lark_item(it)


def lark_text(g):
    return "\n".join(r["lhs"] + ": " + " | ".join(" ".join(lark_item(x) for x in alt) for alt in r["alts"]) for r in g["rules"]) + "\n"


def strip_text(g):
    """the copy handed to TLA+ (no Lark text inside items)"""
    def st(it):
        it = dict(it)
        it.pop("text", None)
        if "a" in it and isinstance(it["a"], dict):
            it["a"] = st(it["a"])
        if "alts" in it:
            it["alts"] = [[st(x) for x in alt] for alt in it["alts"]]
        return it
    return {"start": g["start"], "rules": [{"lhs": r["lhs"], "alts": [[st(x) for x in alt] for alt in r["alts"]]} for r in g["rules"]]}


def reduced(g):
    # reuse cfggen's analysis: a token item is a terminal
    def conv(it):
        if it["k"] == "tok":
            return {"k": "lit", "b": [1]}
        it = dict(it)
        if "a" in it and isinstance(it["a"], dict):
            it["a"] = conv(it["a"])
        if "alts" in it:
            it["alts"] = [[conv(x) for x in alt] for alt in it["alts"]]
        return it
    g2 = {"start": g["start"], "rules": [{"lhs": r["lhs"], "alts": [[conv(x) for x in alt] for alt in r["alts"]]} for r in g["rules"]]}
    return cfggen.is_reduced(g2)


def tok_probes(voc, first_special):
    out = []
    n = len(voc["words"])
    for t in range(first_special, n):
        name = voc["words"][t][1:]
        out.append({"b": name})                                   # the name as plain text
        out.append({"b": [0xFF] + name, "want": t})               # marker + name
        out.append({"b": [0xFF] + list(("[%d]" % t).encode()), "want": t})
    out.append({"b": list(b"a<a>b<|tool|>[3]<[3]>")})
    return out
