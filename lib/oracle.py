"""U1 for the exact oracles of C05 (spec/MC_Oracle.tla): Earley item sets (Cfg.tla, CfgP.tla) against the declarative
language definitions (Cfg.Derives, GrammarLang.LangN) on every byte string up to a bound, for grammars drawn from the
same generators the C05 episodes use."""
import json
import os
import random

from . import cfggen, core, paramgen


def bound(nab, cap):
    n = 1
    while n < 7 and nab ** (n + 1) <= cap:
        n += 1
    return n


def grammars(rng, count, cap=500):
    out = []
    tries = 0
    while len(out) < count and tries < count * 60:
        tries += 1
        if rng.random() < 0.5:
            g = paramgen.rand_grammar(rng)
            ab = paramgen.alphabet(g)
            if len(ab) > 5:
                continue
            out.append({"pcfg": paramgen.spec_json(g), "alpha": ab, "n": bound(len(ab), cap)})
        else:
            if rng.random() < 0.25:
                _name, g = rng.choice(cfggen.HAND)
            else:
                g = cfggen.rand_grammar(rng)
                if not cfggen.is_reduced(g):
                    continue
            ab = sorted(set(cfggen.alphabet(g)))
            if len(ab) > 5 or not ab:
                continue
            out.append({"cfg": g, "alpha": ab, "n": bound(len(ab), cap)})
    return out


def check(prop, tier, seed, res):
    q = tier == "quick"
    rng = random.Random(f"{prop}-oracle-{seed}")
    gs = grammars(rng, 16 if q else 320, cap=200 if q else 400)
    nsh = 8 if q else 16
    wd = core.workdir(f"{prop}o-{tier}")
    shards = [gs[i::nsh] for i in range(nsh) if gs[i::nsh]]

    def go(ix):
        gp = os.path.join(wd, f"gs{ix}.ndjson")
        with open(gp, "w") as f:
            for g in shards[ix]:
                f.write(json.dumps(g, separators=(",", ":")) + "\n")
        r = core.tlc_check("MC_Oracle", "MC_Oracle.cfg", workers=1, timeout=1500 if q else 7200, extra_env={"GRAMMARS": gp},
                           tag=f"oracle-{prop}-{ix}")
        return gp, r

    total = 0
    for gp, r in core.parallel(go, list(range(len(shards))), workers=nsh):
        if not r["ok"]:
            # which grammar: the value of i in the error trace
            import re
            m = re.findall(r"^i = (\d+)", r["out"], re.M)
            k = int(m[-1]) if m else 1
            lines = core.read_lines(gp)
            rp = os.path.join(core.REPLAYS, f"{prop}-{tier}-{seed}-oracle-{abs(hash(lines[k - 1])) % 10**8}.ndjson")
            os.makedirs(core.REPLAYS, exist_ok=True)
            open(rp, "w").write(lines[k - 1] + "\n")
            if "Invariant OracleOK is violated" not in r["out"]:
                raise core.ToolError("MC_Oracle failed:\n" + r.get("tail", ""))
            res.violation({"kind": "oracle-definitions-disagree", "grammar": lines[k - 1][:300]}, rp)
        res.add_tlc(r)
        total += r["distinct"]
    res.cov["u1_models"].append({"model": "MC_Oracle (Earley item sets = declarative language, every byte string up to the bound; "
                                          "NextBytes = viable bytes)", "grammars": len(gs),
                                 "parametric": sum(1 for g in gs if "pcfg" in g), "distinct_states": total})
