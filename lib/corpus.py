"""Hand-written grammars of the core fragment (no max_tokens=, stop=, temperature=, backtracking)
used by the relational scenarios, plus the repository's own sample inputs."""
import glob
import json
import os

LARK = [
    # two alternatives sharing a lexeme (the bias-cache shape: same lexer state and row index
    # reached through different histories)
    ("shared_lexeme", 'start: "a" X | "b" X "!"\nX: /[0-9]+/\n'),
    ("ab_abc", 'start: "ab" | "abc"\n'),
    # more shapes in which different histories reach the same lexer state and row index
    ("shared_lexeme2", 'start: "x=" NUM ";" | "y=" NUM "!" | "z=" NUM NUM2 "?"\nNUM: /[0-9]+/\nNUM2: /\\.[0-9]+/\n'),
    ("shared_lexeme3", 'start: cmd+\ncmd: "get " ID ";" | "set " ID "=" ID ";" | "del " ID "!"\nID: /[a-z]+/\n'),
    ("shared_lexeme4", 'start: "<" T ">" | "[" T "]" | "(" T T ")"\nT: /[a-c]{1,3}/\n'),
    ("fixed", 'start: "ab"\n'),
    ("forced_then_free", 'start: "abc" /[de]+/ "ab"\n'),
    ("arith", 'start: expr\nexpr: term | expr "+" term | expr "-" term\nterm: atom | term "*" atom\n'
              'atom: NUMBER | "(" expr ")"\nNUMBER: /[0-9]+/\n'),
    ("brackets", 'start: s\ns: | "(" s ")" s | "[" s "]" s\n'),
    ("nullable_chain", 'start: a b c "x"\na: | "a"\nb: | "b" b\nc: a | b\n'),
    ("left_rec_list", 'start: list\nlist: item | list "," item\nitem: /[a-z]+/ | "<" list ">"\n'),
    ("kw_id", 'start: (KW ID | ID) ";"\nKW: "if"\nID: /[a-z]+/\n%ignore / +/\n'),
    ("ignore_ws", 'start: "{" pair ("," pair)* "}"\npair: KEY ":" VAL\nKEY: /[a-z]{1,3}/\nVAL: /[0-9]{1,4}/\n'
                  '%ignore /[ \\n]+/\n'),
    ("rep_rule", 'start: item{2,5} "."\nitem: "x" | "yz"\n'),
    ("rep_13", 'start: ("a" | "bc"){3,13} "!"\n'),
    ("opt_star_plus", 'start: "a"? "b"* "c"+ ("d" | "ee")? "."\n'),
    ("utf8", 'start: /[a-zé€]+/ "→" /(😀|x){1,3}/\n'),
    ("negclass", 'start: "\\"" /[^"\\\\]*/ "\\""\n'),
    ("and_not", 'start: T "."\nT: /[a-z ]+/ & ~/(?s:.*)  (?s:.*)/\n'),
    ("lazy", 'start: body "end"\nbody[lazy]: /[a-z ]*;/\n'),
    ("suffix", 'start: s1 /[0-9]+/\ns1[suffix=";"]: /[a-z]*/\n'),
    ("json_in_lark", 'start: "v=" j ";"\nj: %json {"type":"object","properties":{"k":{"type":"integer","minimum":0,"maximum":20}},"required":["k"],"additionalProperties":false}\n'),
    ("two_json", 'start: a | b\na: %json {"type":"object","properties":{"x":{"type":"boolean"}},"required":["x"],"additionalProperties":false}\n'
                 'b: %json {"type":"array","items":{"type":"integer"},"maxItems":3}\n'),
    ("tok_refs", 'start: <|tool|> "f(" /[a-z]+/ ")" <|user|> | "plain " /[a-z]+/\n'),
    # (ranges never contain the EOS id, which is the last id of every harness vocabulary: where a
    #  grammar names EOS itself, C01's EOS clause and C19's range clause contradict each other)
    ("tok_range", 'start: "x" <[256-257]> "y" | "x" <[258-259]> "z"\n'),
    # lexemes that mix character classes (a slice of one class is only partly contained in them)
    ("class_mix", 'start: /[a-z0-9]+[A-Z]?/ "!"\n'),
    ("class_mix2", 'start: item ("," item)*\nitem: /[a-f0-9]+/ | /[A-Z][a-z]*/ | /[x-z]{1,3}[0-9]?/\n'),
    ("keywords", 'start: stmt+\nstmt: "let " ID "=" NUM ";" | "print " ID ";"\nID: /[a-z][a-z0-9]{0,5}/\nNUM: /-?[0-9]{1,3}/\n'),
    ("alt_prefixes", 'start: "foo" | "foobar" | "foobaz" | "fob" | "f"\n'),
    ("nested_rep", 'start: (("a"|"b"){2} ","){1,3} "."\n'),
    ("substr", 'start: S "."\nS: %regex { "substring_words": "the quick brown fox jumps" }\n'),
    ("free_text", 'start: /(.|\\n)*/\n'),
    # "rest of the line" lexemes: every printable character but only some of TAB / CR / LF (a lexeme that contains the
    # default string slice and not the whitespace slice)
    ("rest_of_line", 'start: line ("\\n" line)*\nline: /[^\\n]+/\n'),
    ("dot_plus", 'start: /.+/\n'),
    ("no_crlf", 'start: /[^\\r\\n]+/ "\\r\\n" /[a-z\\t]+/\n'),
    ("text_then_tag", 'start: /[^<]*/ "<end>"\n'),
    # docs/syntax.md "Tool calling": lazy and greedy lexemes live in the same lexer state
    ("doc_toolcall", 'start: ( f_foo | f_bar )* f_end\nf_end: TEXT\nTEXT: /(.|\\n)*/\n\n'
                     'f_foo_hd[lazy]: TEXT "<function"\nf_foo: f_foo_hd "=foo>" %json { "type": "object" } "</function>"\n\n'
                     'f_bar_hd[lazy]: TEXT "<function"\nf_bar: f_bar_hd "=bar>" /[0-9]+/ "</function>"\n'),
    ("doc_think", 'start: "<think>" "\\n" body "</think>" address\nbody[lazy]: /(.|\\n)*<\\/think>/\n'
                  'address: %json {"type":"object","properties":{"zip":{"type":"number"}},"required":["zip"],"additionalProperties":false}\n'),
    ("lazy_mixed", 'start: (a | b) "."\na: T "!"\nb: hd "=" /[0-9]+/\nT: /[a-z ]+/\nhd[lazy]: /[a-z ]*key/\n'),
    # docs/parametric.md
    ("param_perm", 'start    :  perm::0x0\nperm::_  :  ""                       %if is_ones([0:3])\n'
                   '         |  "a" perm::set_bit(0)     %if bit_clear(0)\n         |  "b" perm::set_bit(1)     %if bit_clear(1)\n'
                   '         |  "c" perm::set_bit(2)     %if bit_clear(2)\n'),
    ("param_count", 'start  : lst::0x0\nlst::_ : "a" lst::incr([0:3])  %if lt([0:3], 2)\n       | "b" lst::incr([3:6])  %if lt([3:6], 3)\n'
                    '       | "c" lst::incr([6:9])  %if lt([6:9], 2)\n       | ""\n'),
    ("param_pick", 'start    :  perm::0x0\nperm::_  :  ""                       %if bit_count_ge(_, 1)\n'
                   '         |  "a" perm::set_bit(0)     %if and(bit_clear(0), bit_count_lt(_, 3))\n'
                   '         |  "b" perm::set_bit(1)     %if and(bit_clear(1), bit_count_lt(_, 3))\n'
                   '         |  "c" perm::set_bit(2)     %if and(bit_clear(2), bit_count_lt(_, 3))\n'
                   '         |  "d" perm::set_bit(3)     %if and(bit_clear(3), bit_count_lt(_, 3))\n'),
]

# Outside the core fragment (stop=, max_tokens=, temperature=): used only by properties whose
# quantifier says "every grammar" (C11).
EXT_LARK = [
    ("stop_eos_mid", 'start: gen "\\n" /[0-9]+/\ngen[stop=""]: /[a-z ]*/\n'),
    ("stop_eos_tail", 'start: "q:" body TAIL\nbody[stop=""]: /[a-z]*/\nTAIL: /[a-z]*[0-9]/\n'),
    # (the documented `with_stop "<end>"` pattern panics in compute_mask: known finding under C20,
    #  exercised there, not here)
    ("max_tokens", 'start: a "." b\na[max_tokens=3]: /[a-z ]+/\nb: /[0-9]{1,3}/\n'),
    ("temperature", 'start: a b\na[temperature=0.5]: /[a-z]+/\nb: "!" | "?"\n'),
    ("suffix_capture", 'start: s1 "x" s1\ns1[capture, suffix=";"]: /[a-z]*/\n'),
]

REGEX = [
    ("digits", r"[0-9]{1,3}(\.[0-9]+)?"),
    ("word_list", r"(foo|bar|baz)(,(foo|bar|baz))*"),
    ("quoted", r'"([^"\\]|\\["\\nt])*"'),
    ("date", r"20[0-9]{2}-(0[1-9]|1[0-2])-(0[1-9]|[12][0-9]|3[01])"),
    ("utf8", r"(é|€|😀|a)+b?"),
    ("icase", r"(?i:select) [a-z]+ (?i:from) [a-z]+"),
    ("opt", r"a?b?c?d"),
    ("dot", r"a.{0,3}b"),
]

SCHEMAS = [
    ("blogish", {"type": "object", "properties": {"title": {"type": "string", "maxLength": 12},
                 "tags": {"type": "array", "items": {"enum": ["a", "ab", "abc"]}, "maxItems": 3},
                 "n": {"type": "integer", "minimum": -5, "maximum": 120}},
                 "required": ["title", "n"], "additionalProperties": False}),
    ("enum_prefixes", {"enum": ["foo", "foobar", "fob", 12, 120, True, None, {"a": 1}]}),
    ("pattern_ap", {"type": "object", "properties": {"id": {"type": "string", "pattern": "^[a-z]{2}[0-9]{1,2}$"}},
                    "additionalProperties": {"type": "integer"}, "required": ["id"]}),
    ("anyof_date", {"anyOf": [{"type": "string", "format": "date"}, {"type": "integer", "multipleOf": 5},
                              {"type": "null"}]}),
    ("nested_arrays", {"type": "array", "items": {"type": "array", "items": {"type": "boolean"}, "minItems": 1, "maxItems": 2},
                       "minItems": 1, "maxItems": 3}),
    ("recursive", {"$defs": {"node": {"type": "object", "properties": {"v": {"type": "integer"},
                   "next": {"anyOf": [{"$ref": "#/$defs/node"}, {"type": "null"}]}}, "required": ["v", "next"],
                   "additionalProperties": False}}, "$ref": "#/$defs/node"}),
    ("number_range", {"type": "number", "minimum": -2.5, "exclusiveMaximum": 17.25}),
    ("str_len_unicode", {"type": "string", "minLength": 2, "maxLength": 5}),
    ("const_obj", {"const": {"k": [1, 2, {"z": "q"}], "s": "x\ny"}}),
    ("allof", {"allOf": [{"type": "object", "properties": {"a": {"type": "integer"}}, "required": ["a"]},
                         {"type": "object", "properties": {"b": {"type": "string", "maxLength": 3}}}]}),
    ("prefix_items", {"type": "array", "prefixItems": [{"type": "integer"}, {"enum": ["x", "y"]}],
                      "items": {"type": "boolean"}, "minItems": 1, "maxItems": 4}),
    # a prefix position nothing can fill: the array has to end before it, whatever `items` says
    ("prefix_false", {"type": "array", "prefixItems": [{"type": "integer"}, False]}),
    ("prefix_contradiction", {"type": "array", "prefixItems": [{"enum": ["x"]}, {"type": "boolean"},
                                                                {"allOf": [{"type": "string"}, {"type": "null"}]}],
                              "items": {"type": "integer"}, "minItems": 1}),
    ("free_object", {"type": "object"}),
    ("date_only", {"type": "string", "format": "date"}),
    # the recorded finding C06/escaped-key-bypasses-properties: a key spelled with a needless \u escape
    ("escaped_key", {"type": "object", "properties": {"\u00e9": {"type": "null"}}, "additionalProperties": {"type": "number"}}),
    # two multipleOf values whose least common multiple does not fit 32 bits (was: silent wrap, see known_findings fixed:)
    ("lcm_overflow", {"type": "integer", "allOf": [{"multipleOf": 65536}, {"multipleOf": 65537}]}),
    ("ws_flexible", {"x-guidance": {"whitespace_flexible": True}, "type": "object",
                     "properties": {"a": {"type": "array", "items": {"type": "integer"}, "maxItems": 2}},
                     "required": ["a"], "additionalProperties": False}),
]


# candidate instance texts offered in addition to the generated ones
EXTRA_INSTANCES = {"prefix_false": ["[]", "[1]", "[1,2]", '[1,"x"]', "[1,2,3]"],
                   "prefix_contradiction": ['["x"]', '["x",true]', '["x",true,1]', '["x",true,"s"]', '["x",true,null,4]', "[]"],
                   "lcm_overflow": ["65536", "131072", "0", "4295032832"],
                   # the recorded finding: February 29 is accepted in every year
                   "escaped_key": ['{"\\u00e9":-7.12}', '{"\u00e9":null}', '{"\u00e9":1}', "{}"],
                   "date_only": ['"2023-02-29"', '"2024-02-29"', '"2023-02-30"', '"1900-02-29"']}


def repo_samples():
    """Sample inputs shipped with the repository (core fragment only)."""
    out = []
    d = "/repo/sample_parser/data"
    for p in sorted(glob.glob(os.path.join(d, "*.schema.json"))):
        try:
            out.append(("repo:" + os.path.basename(p), {"kind": "json", "schema": json.load(open(p))}))
        except Exception:
            pass
    return out


def all_grammars():
    g = []
    for n, t in LARK:
        g.append((n, {"kind": "lark", "text": t}))
    for n, t in REGEX:
        g.append(("rx:" + n, {"kind": "regex", "text": t}))
    for n, s in SCHEMAS:
        g.append(("js:" + n, {"kind": "json", "schema": s}))
    g.extend(repo_samples())
    return g


def ext_grammars():
    return [("ext:" + n, {"kind": "lark", "text": t}) for n, t in EXT_LARK]
