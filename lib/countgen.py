"""C09: grammars / schemas with repetition counts and size bounds, and probe strings made of k copies."""
import json
import random

# each is ONE character of the JSON string value (escapes the engine admits: the two-character
# escapes and \\u00XX for control characters; it does not admit \\u escapes of printable characters)
CHARS = ["a", "é", "€", "😀", "\\n", "\\u001f", "b", "\\\\", '\\"']


def qtext(m, n):
    if n < 0:
        return "{%d,}" % m
    if m == n:
        return "{%d}" % m
    return "{%d,%d}" % (m, n)


def ks_for(rng, m, n, extra=3):
    hi = (n if n >= 0 else m + 6) + extra
    return list(range(0, hi + 1))


def case(gram, gtext, reps, lits, mayfail=0):
    return {"ev": "Count", "gram": gram,
            "meta": {"gtext": gtext, "reps": [{"m": m, "n": n} for m, n in reps], "mayfail": mayfail},
            "lits": lits}


def lark(text):
    return {"kind": "lark", "text": text}


def level_cases(rng, m, n, levels):
    out = []
    q = qtext(m, n)
    ks = ks_for(rng, m, n)
    for lv in levels:
        if lv == "rule":
            g = f'start: item{q}\nitem: "ab"\n'
            out.append(case(lark(g), g, [(m, n)], [{"text": "ab" * k, "ks": [k]} for k in ks]))
        elif lv == "rule_group":
            g = f'start: "<" ("a" | "bc"){q} ">"\n'
            out.append(case(lark(g), g, [(m, n)],
                            [{"text": "<" + "".join(rng.choice(["a", "bc"]) for _ in range(k)) + ">", "ks": [k]} for k in ks]))
        elif lv == "rule_nested":
            g = f'start: (item{{2}}){q} "."\nitem: "x"\n'
            out.append(case(lark(g), g, [(m, n)], [{"text": "xx" * k + ".", "ks": [k]} for k in ks]))
        elif lv == "terminal":
            g = f'start: T\nT: "ab"{q}\n'
            out.append(case(lark(g), g, [(m, n)], [{"text": "ab" * k, "ks": [k]} for k in ks], mayfail=1 if n == 0 else 0))
        elif lv == "regex":
            g = f'start: /(ab){q}c/\n'
            out.append(case(lark(g), g, [(m, n)], [{"text": "ab" * k + "c", "ks": [k]} for k in ks]))
        elif lv == "regex_top":
            rx = f"x(ab|c){q}y"
            out.append(case({"kind": "regex", "text": rx}, rx, [(m, n)],
                            [{"text": "x" + "".join(rng.choice(["ab", "c"]) for _ in range(k)) + "y", "ks": [k]} for k in ks]))
        elif lv == "items" and n >= 0:
            s = {"type": "array", "items": {"enum": [1, 22]}, "minItems": m, "maxItems": n}
            t = json.dumps(s)
            out.append(case({"kind": "json", "text": t}, t, [(m, n)],
                            [{"text": "[" + ",".join(rng.choice(["1", "22"]) for _ in range(k)) + "]", "ks": [k]} for k in ks]))
        elif lv == "items_min":
            s = {"type": "array", "items": {"type": "boolean"}, "minItems": m}
            t = json.dumps(s)
            out.append(case({"kind": "json", "text": t}, t, [(m, -1)],
                            [{"text": "[" + ",".join(rng.choice(["true", "false"]) for _ in range(k)) + "]", "ks": [k]}
                             for k in ks_for(rng, m, -1)]))
        elif lv == "length" and n >= 0:
            s = {"type": "string", "minLength": m, "maxLength": n}
            t = json.dumps(s)
            out.append(case({"kind": "json", "text": t}, t, [(m, n)],
                            [{"text": '"' + "".join(rng.choice(CHARS) for _ in range(k)) + '"', "ks": [k]} for k in ks]))
        elif lv == "length_enum" and n >= 0:
            # length bounds on enum / const strings: counted in code points, also for literals (1-4 byte characters);
            # members outside the bounds drop out; with no member left the schema may be refused at construction
            pool = ["", "a", "é", "€", "😀", "ab", "é€", "a😀", "abc", "€é€", "😀😀😀", "abcd", "éééé", "€€€€€", "abcdef", "é" * 7, "😀" * 9]
            mem = rng.sample(pool, rng.randint(2, 6))
            if rng.random() < 0.3:
                mem = mem[:1]
            s = ({"const": mem[0]} if len(mem) == 1 else {"enum": mem})
            s.update({"minLength": m, "maxLength": n})
            t = json.dumps(s, ensure_ascii=False)
            some = any(m <= len(x) <= n for x in mem)
            out.append(case({"kind": "json", "text": t}, t, [(m, n)],
                            [{"text": json.dumps(x, ensure_ascii=False), "ks": [len(x)]} for x in mem], mayfail=0 if some else 1))
        elif lv == "properties" and n >= 0:
            s = {"type": "object", "additionalProperties": {"const": 1}, "minProperties": m, "maxProperties": n}
            t = json.dumps(s)
            out.append(case({"kind": "json", "text": t}, t, [(m, n)],
                            [{"text": "{" + ",".join('"k%d":1' % i for i in range(k)) + "}", "ks": [k]} for k in ks], mayfail=0))
        elif lv == "properties_req" and n >= 0:
            # declared properties (r required, o optional) followed by additional ones: the count covers all members
            r = rng.randint(1, 3)
            o = rng.choice([0, 0, 1])
            if n < r:
                continue
            props = {f"r{i}": {"const": 1} for i in range(r)}
            props.update({f"o{i}": {"const": 1} for i in range(o)})
            s = {"type": "object", "properties": props, "required": [f"r{i}" for i in range(r)],
                 "additionalProperties": {"const": 1}, "minProperties": m, "maxProperties": n}
            t = json.dumps(s)
            lits = []
            for k in sorted(set(ks + [r, r + 1, n, n + 1])):
                if k < r:
                    continue
                for use_o in ([0, 1] if o and k > r else [0]):
                    names = [f"r{i}" for i in range(r)] + (["o0"] if use_o else [])
                    names += [f"x{i}" for i in range(k - len(names))]
                    lits.append({"text": "{" + ",".join('"%s":1' % nm for nm in names) + "}", "ks": [k]})
            # optional declared keys + a property count is documented as unsupported (compile error)
            out.append(case({"kind": "json", "text": t}, t, [(max(m, r), n)], lits, mayfail=1 if o else 0))
        elif lv == "properties_pat" and n >= 0:
            s = {"type": "object", "patternProperties": {"^k[0-9]+$": {"const": 1}}, "additionalProperties": False,
                 "minProperties": m, "maxProperties": n}
            t = json.dumps(s)
            out.append(case({"kind": "json", "text": t}, t, [(m, n)],
                            [{"text": "{" + ",".join('"k%d":1' % i for i in range(k)) + "}", "ks": [k]} for k in ks], mayfail=0))
        elif lv == "items_prefix" and n >= 0:
            pfx = rng.randint(1, 3)
            s = {"type": "array", "prefixItems": [{"const": 0}] * pfx, "items": {"enum": [1, 22]}, "minItems": m, "maxItems": n}
            t = json.dumps(s)
            out.append(case({"kind": "json", "text": t}, t, [(m, n)],
                            [{"text": "[" + ",".join(["0"] * min(k, pfx) + [rng.choice(["1", "22"]) for _ in range(k - pfx)]) + "]",
                              "ks": [k]} for k in sorted(set(ks + [pfx, pfx + 1]))]))
    return out


def pair_cases(rng, N, count):
    """two repetitions of the same named rule in one grammar (shared sub-structure in the builder)"""
    out = []
    for _ in range(count):
        m1 = rng.randint(0, N)
        n1 = rng.choice([-1, m1, rng.randint(m1, N), rng.randint(m1, N)])
        m2 = rng.randint(0, N)
        n2 = rng.choice([-1, m2, rng.randint(m2, N), rng.randint(m2, N)])
        if n1 == 0 or n2 == 0:
            continue
        g = f'start: item{qtext(m1, n1)} ";" item{qtext(m2, n2)}\nitem: "x"\n'
        ks1 = sorted(set([0, max(0, m1 - 1), m1, (n1 if n1 >= 0 else m1 + 2), (n1 if n1 >= 0 else m1 + 2) + 1, rng.randint(0, N + 2)]))
        ks2 = sorted(set([0, max(0, m2 - 1), m2, (n2 if n2 >= 0 else m2 + 2), (n2 if n2 >= 0 else m2 + 2) + 1, rng.randint(0, N + 2)]))
        lits = [{"text": "x" * a + ";" + "x" * b, "ks": [a, b]} for a in ks1 for b in ks2]
        out.append(case(lark(g), g, [(m1, n1), (m2, n2)], lits))
    return out


def op_cases(rng):
    out = []
    for op, (m, n) in (("*", (0, -1)), ("+", (1, -1)), ("?", (0, 1))):
        ks = list(range(0, 5))
        g = f'start: item{op} "."\nitem: "ab"\n'
        out.append(case(lark(g), g, [(m, n)], [{"text": "ab" * k + ".", "ks": [k]} for k in ks]))
        g = f'start: T "."\nT: "ab"{op}\n'
        out.append(case(lark(g), g, [(m, n)], [{"text": "ab" * k + ".", "ks": [k]} for k in ks]))
        g = f'start: /(ab){op}c/\n'
        out.append(case(lark(g), g, [(m, n)], [{"text": "ab" * k + "c", "ks": [k]} for k in ks]))
        g = f'start: ("a" "b"){op} "."\n'
        out.append(case(lark(g), g, [(m, n)], [{"text": "ab" * k + ".", "ks": [k]} for k in ks]))
    return out


ALL_LEVELS = ["rule", "rule_group", "rule_nested", "terminal", "regex", "regex_top", "items", "items_min", "length", "length_enum", "properties",
              "properties_req", "properties_pat", "items_prefix"]


def build(rng, N, pair_count, levels=ALL_LEVELS, stride=1):
    cases = op_cases(rng)
    for m in range(0, N + 1):
        for n in list(range(m, N + 1)) + [-1]:
            if n == 0:
                continue   # x{0,0} is a Lark parse error (allowed)
            if stride > 1 and n >= 0 and (m * 31 + n) % stride != 0 and n not in (11, 12, 13) and n % 4 != 0:
                continue
            cases += level_cases(rng, m, n, levels)
    cases += pair_cases(rng, N, pair_count)
    return cases
