"""Relational scenarios (learned oracle, spec/EngineRel.tla): job construction, driving, validation."""
import hashlib
import json
import os
import random
import re

from . import core, corpus, vocabs

BASE_W = {
    "C01": {"mask": 90, "fft_side": 100, "validate": 50, "validate_all": 60, "acc": 60, "consume_each": 40,
            "each_max": 320, "commit_try": 10, "commit_batch": 10, "bad_token": 40, "status": 10,
            "rollback": 6, "shadow_after_rollback": 30, "after_stop": 30},
    "C11": {"mask": 60, "mask2": 50, "fft_side": 50, "inval": 30, "validate": 40, "validate_all": 10, "acc": 40,
            "ffb": 40, "fft": 30, "clone_mask": 30, "status": 10, "mask_or_eos": 10, "shadow": 15,
            "drop_shadow": 10, "rollback": 10, "shadow_after_rollback": 60, "consume_ff": 10,
            "commit_batch": 15, "commit_try": 10},
    "C12": {"rollback": 30, "reset": 4, "rollback_over": 15, "shadow_after_rollback": 80, "mask": 50,
            "fft_side": 50, "acc": 40, "ffb": 30, "fft": 20, "validate": 30, "status": 30, "clone_mask": 10,
            "commit_batch": 15, "commit_try": 10, "consume_ff": 8, "drop_shadow": 25, "mask_or_eos": 10},
    "C03": {"mask": 100, "acc": 100, "status": 30, "validate": 10, "commit_batch": 10, "commit_try": 10, "fft_side": 100,
            "rollback": 4, "ffb": 20},
    "C10": {"mask": 100, "acc": 20, "validate": 10, "rollback": 5, "commit_batch": 10},
    "C18": {"mask": 50, "acc": 50, "status": 60, "mask_or_eos": 40, "after_stop": 100, "bad_token": 250,
            "rollback_over": 80, "rollback": 10, "validate": 30, "validate_all": 20, "commit_try": 25,
            "commit_batch": 15, "fft_side": 100, "consume_each": 10, "each_max": 300},
}

VIEW = {"C03": "all", "C01": "all", "C18": "all", "C10": "func", "C11": "func", "C12": "func", "C13": "all", "C14": "func"}


def hints_for(g):
    """strings the walk should try to spell: quoted literals of a Lark grammar, keys / enum /
    const strings of a JSON schema (as JSON text), literal runs of a regex"""
    import re
    out = set()
    if g["kind"] == "lark":
        for m in re.finditer(r"/((?:[^/\\\n]|\\.)+)/", g["text"]):
            for w in re.finditer(r"[A-Za-z<>=]{2,}", m.group(1)):
                out.add(w.group(0))
        for m in re.finditer(r'"((?:[^"\\\n]|\\.)+)"', g["text"]):
            try:
                out.add(json.loads('"' + m.group(1) + '"'))
            except Exception:
                out.add(m.group(1))
    elif g["kind"] == "json":
        def walk(x):
            if isinstance(x, dict):
                for k, v in x.items():
                    if k in ("properties", "$defs", "definitions") and isinstance(v, dict):
                        for kk in v:
                            out.add(json.dumps(kk))
                    if k in ("enum",) and isinstance(v, list):
                        for e in v:
                            out.add(json.dumps(e, separators=(",", ":")))
                    if k == "const":
                        out.add(json.dumps(v, separators=(",", ":")))
                    walk(v)
            elif isinstance(x, list):
                for v in x:
                    walk(v)
        walk(g.get("schema"))
    else:
        for m in re.finditer(r"[A-Za-z0-9 ]{2,}", g.get("text", "")):
            out.add(m.group(0))
    return [list(h.encode("utf-8")) for h in sorted(out) if h][:40]


def gram_text(g):
    if g["kind"] == "json":
        return json.dumps(g.get("schema"))
    return g.get("text", "")


def vocab_for(rng, g, choice, canonical):
    if choice == "byte":
        return vocabs.byte(canonical)
    if choice == "syn":
        return vocabs.synthetic(rng, gram_text(g), n_multi=rng.choice([30, 60, 120]), canonical=canonical)
    if choice == "lang":
        return {"kind": "lang", "canonical": canonical, "n_multi": rng.choice([40, 80, 160]), "maxlen": rng.choice([3, 5])}
    if choice == "bpe":
        return vocabs.bpe(rng.choice([300, 600, 1100]), canonical)
    raise ValueError(choice)


SLICE_SETS = [
    [],
    "default",
    "json",
    ["[a-z]{1,4}"],
    ["[a-z]+", "[a-z0-9 ]+"],
    ['[^"\\\\]{1,10}', '[^"\\\\\\x00-\\x1F\\x7F]+'],
    ["[0-9]+", "[a-z0-9]+", "[^\"]+"],
    # several sibling slices, some with a slice nested inside them
    ["[a-z]+", "[0-9]+", "[A-Z ]+", "[A-Z]+"],
    ["[a-z]+", "[a-f]+", "[0-9]+", "[A-Z]+", "[ .,]+"],
    ["[ab]+", "[cd]+", "[ef]+", "[e]+", "[0-9]{1,3}"],
    ["[a-m]+", "[n-z]+", "[0-4]+", "[5-9]+", "[a-c]+", "[x-z]{1,2}"],
]


def random_slices(rng):
    """3-6 slices over letter / digit classes: some disjoint siblings, some nested in another one"""
    tops = rng.sample(["[a-z]+", "[0-9]+", "[A-Z]+", "[A-Z ]+", "[ .,;]+", "[a-z0-9]+", "[a-m]+", "[n-z]+", "[!?]+"], rng.randint(2, 4))
    nested = rng.sample(["[a-f]+", "[0-3]+", "[A-F]+", "[aeiou]+", "[x-z]{1,3}", "[0-9]{1,2}", "[a-c]{1,4}", "[B-D]+"], rng.randint(1, 3))
    out = tops + nested
    rng.shuffle(out)
    return out


MULTI_EOS = {"C01", "C11", "C12", "C18"}


def build_job(prop, tier, seed, n_episodes, grammars, steps=(12, 30), vocab_choices=("byte", "syn", "bpe", "lang", "lang")):
    rng = random.Random(f"{prop}-{seed}")
    eps = []
    for i in range(n_episodes):
        name, g = grammars[(i + seed * 17) % len(grammars)] if i < len(grammars) else rng.choice(grammars)
        canonical = rng.choice([0, 1])
        vc = rng.choice(vocab_choices)
        voc = vocab_for(rng, g, vc, canonical)
        # (never for grammars that refer to tokens by number: a range could name the extra EOS, and a grammar-named EOS
        #  is the corner in which C01's EOS clause and C19's range clause contradict each other)
        if prop in MULTI_EOS and "<[" not in gram_text(g) and rng.random() < (0.5 if prop == "C18" else 0.25):
            # several end-of-sequence tokens (TokTrie::with_eos_tokens): special tokens the grammar does not name
            names = [nm for nm in ("<|user|>", "<|tool|>", "<a>") if nm not in gram_text(g)]
            if names:
                voc = dict(voc, eos_extra_names=rng.sample(names, min(len(names), rng.choice([1, 1, 2]))))
        w = dict(BASE_W[prop])
        if name.startswith("ext:"):
            # stop= / max_tokens= grammars do not support rollback (C12's quantifier excludes them)
            w.update({"rollback": 0, "reset": 0, "rollback_over": 0, "shadow_after_rollback": 0})
        if prop == "C10":
            sl = rng.choice(SLICE_SETS[1:]) if rng.random() < 0.6 else random_slices(rng)
            cfgs = [{"vocab": voc, "vid": 0, "slices": sl}, {"vocab": voc, "vid": 0, "slices": []}]
            if rng.random() < 0.4:
                cfgs.append({"vocab": voc, "vid": 0, "slices": rng.choice(SLICE_SETS[1:]) if rng.random() < 0.5 else random_slices(rng)})
        else:
            cfgs = [{"vocab": voc, "vid": 0, "slices": rng.choice(SLICE_SETS[:3])}]
        eps.append({"gid": name, "mode": prop, "seed": rng.randrange(1 << 30), "steps": rng.randint(*steps),
                    "gram": g, "cfgs": cfgs, "w": w, "eos_pct": rng.choice([5, 15, 30]),
                    "hints": hints_for(g), "hint_pct": rng.choice([20, 50, 80]),
                    "vocab_kind": vc, "canonical": canonical, "eos_plain": eos_plain(name, g)})
    return {"episodes": eps}


def eos_plain(name, g):
    """1 when the grammar neither names tokens (<[..]>, <|..|>) nor has a lexeme that may end at EOS (stop= / suffix= /
    max_tokens=): then every committed end-of-sequence token must end the run with EndOfSentence"""
    if name.startswith("ext:"):
        return 0
    t = gram_text(g)
    if g.get("kind") == "lark" and any(x in t for x in ("stop=", "suffix=", "max_tokens", "<[", "<|", "%lark", "temperature")):
        return 0
    return 1


def shard(job, k):
    eps = job["episodes"]
    return [{"episodes": eps[i::k]} for i in range(k) if eps[i::k]]


def run_driver(binary, job, jp, tp, timeout):
    """run the driver over a shard; an episode that hangs (watchdog of the `rel` driver: exit code 3, the recorded finding
    C20/force-bytes-unbounded-loop is an endless allocating loop) is dropped and the run continues after it; the
    episodes recorded so far are kept"""
    episodes = list(job["episodes"])
    stats = {"episodes": [], "events": 0, "hung_episodes": 0}
    open(tp, "w").close()
    part = tp + ".part"
    while episodes:
        with open(jp, "w") as f:
            json.dump(dict(job, episodes=episodes), f)
        p = core.run_bin(binary, [jp, part], timeout=timeout, ok_codes=(0, 3, -9, -6, 134, 137))
        last = p.stdout.strip().splitlines()[-1] if p.stdout.strip() else ""
        if p.returncode == 0:
            st = json.loads(last)
            stats["episodes"] += st.get("episodes", [])
            stats["events"] += st.get("events", 0)
            with open(tp, "a") as out:
                out.write(open(part).read())
            break
        # hung (exit 3) or killed by the address-space limit: keep the complete episodes, skip the offender
        lines = core.read_lines(part)
        starts = [i for i, ln in enumerate(lines) if '"ev":"Init"' in ln[:40]]
        try:
            k = json.loads(last)["hung"] if p.returncode == 3 else max(0, len(starts) - 1)
            done = json.loads(last).get("episodes", []) if p.returncode == 3 else []
        except Exception:
            k, done = max(0, len(starts) - 1), []
        keep = lines[:starts[k]] if k < len(starts) else lines
        with open(tp, "a") as out:
            if keep:
                out.write("\n".join(keep) + "\n")
        stats["episodes"] += done
        stats["events"] += len(keep)
        stats["hung_episodes"] += 1
        core.log(f"[driver] episode {episodes[k].get('gid')} did not finish (dropped: unbounded loop / allocation)")
        episodes = episodes[k + 1:]
    return stats


def drive_and_validate(prop, tier, seed, job, res, nshards=8, cfg_view=None, binary="rel", module="Trace_EngineRel",
                       timeout=1800, also=()):
    """Run the driver over the job in shards, validate every shard's trace with TLC.
    Returns list of reject dicts (with episode metadata)."""
    wd = core.workdir(f"{prop}-{tier}")
    view = cfg_view or VIEW.get(prop, "all")
    cfg = f"{module}_{view}.cfg" if module == "Trace_EngineRel" else None
    shards = shard(job, nshards)
    core.build_harness()

    def run(ix):
        jp = os.path.join(wd, f"job{ix}.json")
        tp = os.path.join(wd, f"trace{ix}.ndjson")
        with open(jp, "w") as f:
            json.dump(shards[ix], f)
        stats = run_driver(binary, shards[ix], jp, tp, timeout)
        tot = core.validate_file(module, tp, prop, tier, seed, cfg=cfg, timeout=timeout, tagbase=f"{prop}{ix}")
        for m2 in also:
            # the same recorded trace against a second specification
            t2 = core.validate_file(m2, tp, prop, tier, seed, timeout=timeout, tagbase=f"{prop}{ix}{m2}")
            tot["states"] += t2["states"]
            tot["transitions"] += t2["transitions"]
            tot["rejects"] += t2["rejects"]
        return stats, tot, tp

    outs = core.parallel(run, list(range(len(shards))), workers=nshards)
    rejects = []
    for ix, (stats, tot, tp) in enumerate(outs):
        res.add_validation(tot)
        res.cov["evaluations"] += stats.get("events", 0)
        if stats.get("hung_episodes"):
            res.cov["episodes_dropped_unbounded_loop"] = res.cov.get("episodes_dropped_unbounded_loop", 0) + stats["hung_episodes"]
        for es in stats.get("episodes", []):
            res.cov.setdefault("episodes_compiled", 0)
            res.cov.setdefault("episodes_skipped", 0)
            res.cov.setdefault("episodes_stopped_normally", 0)
            res.cov.setdefault("commits", 0)
            res.cov.setdefault("rollbacks", 0)
            if es.get("compiled") == 1:
                res.cov["episodes_compiled"] += 1
                res.cov["commits"] += es.get("commits", 0)
                res.cov["rollbacks"] += es.get("rollbacks", 0)
                res.cov["episodes_stopped_normally"] += es.get("stopped", 0)
                if es.get("dfs_nodes"):
                    res.cov["exhaustive_walk_nodes"] = res.cov.get("exhaustive_walk_nodes", 0) + es["dfs_nodes"]
                    res.cov["exhaustive_walk_episodes"] = res.cov.get("exhaustive_walk_episodes", 0) + 1
            else:
                res.cov["episodes_skipped"] += 1
        for rj in tot["rejects"]:
            rejects.append(rj)
        # samples + distinct episodes
        lines = core.read_lines(tp)
        cur = []
        for ln in lines:
            if '"ev":"Init"' in ln[:40]:
                if len(cur) > 3:
                    res.distinct(hashlib.sha1("\n".join(cur[1:]).encode()).hexdigest())
                cur = []
            cur.append(ln)
        if len(cur) > 3:
            res.distinct(hashlib.sha1("\n".join(cur[1:]).encode()).hexdigest())
        if ix == 0 and lines:
            res.sample({"first_events_of_a_recorded_episode": [json.loads(x[:2000]) if len(x) < 2000 else x[:300] + "..."
                                                                 for x in lines[:8]]})
    return rejects


def signature(rj):
    """Signature of a rejected episode for known-finding matching: grammar id + kind of event."""
    try:
        init = json.loads(rj["init"])
    except Exception:
        init = {}
    ev = {"ev": rj.get("ev")}
    if init == {}:
        import re
        m = re.search(r'"gid":"([^"]*)"', rj["init"])
        init = {"gid": m.group(1) if m else None}
    return {"gid": init.get("gid"), "mode": init.get("mode"), "event": ev.get("ev"), "index": rj["index"],
            "spec": rj.get("spec")}


def negative_control(prop, res, module="Trace_EngineRel", view="all"):
    """The binding demonstrated: a recorded trace with one field corrupted must be rejected at
    that line.  Uses the first shard's trace of this run."""
    wd = os.path.join(core.WORK, f"{prop}-{res.tier}")
    tp = os.path.join(wd, "trace0.ndjson")
    if not os.path.exists(tp):
        return
    lines = core.read_lines(tp)
    # corrupt the 2nd successful Mask of the first episode that has one: drop one allowed token
    target = None
    seen = 0
    for i, ln in enumerate(lines[:4000]):
        if '"ev":"Mask"' in ln[:40] and '"ok":1' in ln:
            ev = json.loads(ln)
            if len(ev.get("set", [])) >= 2:
                seen += 1
                if seen == 2:
                    target = i
                    break
    if target is None:
        res.cov["negative_controls"].append({"skipped": "no suitable Mask event"})
        return
    ev = json.loads(lines[target])
    # the same (class, history) must have been observed before for a functional contradiction;
    # simplest reliable corruption: change the post-call error flag, which every action checks
    ev["er"] = 1 - ev["er"]
    s, e = core.episode_bounds(lines, target)
    bad = lines[s:target] + [json.dumps(ev)] + lines[target + 1:e]
    bp = os.path.join(wd, "negctl.ndjson")
    with open(bp, "w") as f:
        f.write("\n".join(bad) + "\n")
    cfg = f"{module}_{view}.cfg" if module == "Trace_EngineRel" else None
    r = core.tlc_trace(module, bp, cfg=cfg, tag=f"neg-{prop}")
    res.add_tlc({"distinct": r.get("distinct", 0), "states": r.get("states", 0)})
    ok = (not r["accepted"]) and r.get("reject_at") == (target - s) + 1
    res.cov["negative_controls"].append({"corrupted_event_index": target - s, "rejected_at": r.get("reject_at", None),
                                         "as_expected": ok})
    if not ok:
        raise core.ToolError(f"negative control not rejected where expected: {r.get('reject_at')} vs {target - s + 1}")


# targeted histories for recorded (not repaired) defects: the check keeps exercising them
KNOWN_SCRIPTS = {
    "C11": [
        {"gid": "kf:forced-marker-bytes-then-mask", "mode": "C11", "seed": 1, "steps": 0,
         "gram": {"kind": "lark", "text": 'start: "a" <|user|>\n'},
         "cfgs": [{"vocab": vocabs.byte(0), "vid": 0, "slices": []}], "w": {},
         "script": [["consume", 97], ["mask", 0], ["ffb", 0], ["mask", 0], ["fresh", 0]]},
    ],
    "C12": [
        {"gid": "kf:rollback-over-forced-id-token", "mode": "C12", "seed": 1, "steps": 0,
         "gram": {"kind": "lark", "text": 'start: "a" <[120]> "b"\n'},
         "cfgs": [{"vocab": vocabs.byte(0), "vid": 0, "slices": []}], "w": {},
         "script": [["consume", 97], ["ffb", 0], ["consume", 120], ["rollback", 1], ["mask", 0], ["ffb", 0], ["fresh", 0]]},
    ],
}


def check_rel(prop, tier, seed, n_quick, n_thorough, grammars=None, rule="", **kw):
    res = core.Result(prop, tier, seed)
    n = n_quick if tier == "quick" else n_thorough
    grammars = grammars or corpus.all_grammars()
    job = build_job(prop, tier, seed, n, grammars, **kw)
    job["episodes"] = KNOWN_SCRIPTS.get(prop, []) + job["episodes"]
    rejects = drive_and_validate(prop, tier, seed, job, res, nshards=8 if tier == "quick" else 16)
    for rj in rejects:
        res.violation(signature(rj), rj["replay"])
    negative_control(prop, res, view=VIEW.get(prop, "all"))
    # U2: every call sequence of a bounded length, enumerated by TLC (spec/MC_Script.tla), replayed on the engine
    if prop in ("C12", "C18") or (prop == "C11" and tier != "quick"):
        from . import u2
        for rj in u2.run(prop, tier, seed, res, depth=3 if tier == "quick" else 5):
            res.violation(dict(signature(rj), part="u2-tlc-generated-script"), rj["replay"])
    # the implementation-shaped model (spec/EngineImpl.tla): U1 = every bounded operation sequence of the model gives the
    # reference engine's results, design slips are rejected; U2 = its behaviours replayed on the real engine (Trace_Lex)
    if prop == "C11" or (prop in ("C01", "C12") and tier != "quick"):
        from . import implmc
        implmc.u1(res, tier)
    if prop == "C12" or (prop in ("C01", "C11") and tier != "quick"):
        from . import implmc
        for rj in implmc.u2(prop, tier, seed, res):
            res.violation(dict(signature(rj), part="u2-engineimpl-script"), rj["replay"])
    res.cov["rule"] = rule or ("episodes = random API-call walks recorded from the real engine over corpus grammars x "
                               "vocabularies (byte / synthetic multi-byte / BPE-like), validated event by event by TLC "
                               "against spec/EngineRel.tla; distinct = distinct recorded episodes with > 3 events")
    res.assumptions += ["TLC and the CommunityModules Json/IOUtils overrides", "harness event projection (harness/src/sess.rs)",
                        "resource-limit stops are not violations here"]
    return res


def random_cfg_grammars(seed, n):
    """Lark texts of random grammars of the C05 fragment (many short terminals: tokens of a
    language-derived vocabulary then span three and more lexemes)"""
    from . import cfggen
    rng = random.Random(f"cfgtext-{seed}")
    out = []
    tries = 0
    while len(out) < n and tries < n * 40:
        tries += 1
        g = cfggen.rand_grammar(rng)
        if cfggen.is_reduced(g):
            out.append((f"rcfg{len(out)}", {"kind": "lark", "text": cfggen.lark_text(g)}))
    for name, g in cfggen.HAND:
        out.append(("hand:" + name, {"kind": "lark", "text": cfggen.lark_text(g)}))
    return out


def check_split(prop, tier, seed, n_quick, n_thorough):
    """C02 / C13: lock-step single-byte vs multi-byte engines (harness split, spec/Trace_Split.tla)"""
    res = core.Result(prop, tier, seed)
    rng = random.Random(f"{prop}-split-{seed}")
    n = n_quick if tier == "quick" else n_thorough
    gs = [g for g in corpus.all_grammars() if g[0] not in ("tok_refs", "tok_range")]
    gs = gs + random_cfg_grammars(seed, 40 if tier == "quick" else 600)
    if prop == "C02":
        # lexemes that contain one default slice and only part of another (the slicer's leftover tries matter there)
        gs = gs + [g for g in gs if g[0] in ("rest_of_line", "dot_plus", "no_crlf", "text_then_tag", "negclass")] * 3
    if prop == "C13":
        # forced text: fixed keys, consts, enums sharing prefixes, literal-heavy Lark grammars
        pref = [g for g in gs if g[0].startswith("js:") or g[0] in ("forced_then_free", "alt_prefixes", "keywords", "fixed",
                                                                      "ab_abc", "json_in_lark", "doc_think", "kw_id")]
        gs = gs + pref * 2
    eps = []
    for i in range(n):
        name, g = gs[(i + seed * 13) % len(gs)] if i < len(gs) else rng.choice(gs)
        canonical = 1 if (prop == "C13" or rng.random() < 0.3) else 0
        v1 = vocab_for(rng, g, rng.choice(["syn", "lang", "lang", "bpe"]), canonical)
        v2 = vocab_for(rng, g, rng.choice(["syn", "lang", "bpe"]), 0) if rng.random() < 0.6 else None
        eps.append({"gid": name, "gram": g, "v1": v1, "v2": v2, "steps": rng.randint(8, 20), "seed": rng.randrange(1 << 30),
                    "hints": hints_for(g), "max_probe": 350, "slices": rng.choice([[], "default"])})
    wd = core.workdir(f"{prop}-{tier}")
    core.build_harness()
    nsh = 12 if tier == "quick" else 16
    shards = [eps[i::nsh] for i in range(nsh) if eps[i::nsh]]

    def go(ix):
        jp = os.path.join(wd, f"job{ix}.json")
        tp = os.path.join(wd, f"trace{ix}.ndjson")
        json.dump({"episodes": shards[ix]}, open(jp, "w"))
        p = core.run_bin("split", [jp, tp], timeout=7200)
        st = json.loads(p.stdout.strip().splitlines()[-1])
        tot = core.validate_file("Trace_Split", tp, prop, tier, seed, timeout=7200, tagbase=f"{prop}{ix}")
        return st, tot, tp

    outs = core.parallel(go, list(range(len(shards))), workers=nsh)
    for ix, (st, tot, tp) in enumerate(outs):
        res.add_validation(tot)
        res.cov["evaluations"] += st["events"]
        res.cov["token_probes"] = res.cov.get("token_probes", 0) + sum(e.get("probes", 0) for e in st["episodes"])
        res.cov["commits"] = res.cov.get("commits", 0) + sum(e.get("commits", 0) for e in st["episodes"])
        for rj in tot["rejects"]:
            res.violation(signature(rj), rj["replay"])
        if ix == 0:
            for ln in core.read_lines(tp)[1:7]:
                res.sample(json.loads(ln) if len(ln) < 1500 else ln[:300] + "...")
        lines = core.read_lines(tp)
        cur = []
        for ln in lines:
            if '"ev":"Init"' in ln[:40]:
                if len(cur) > 4:
                    res.distinct(hashlib.sha1("\n".join(cur[1:]).encode()).hexdigest())
                cur = []
            cur.append(ln)
    res.cov["rule"] = ("episodes = one grammar with a single-byte engine and one or two multi-byte engines (synthetic / "
                       "language-derived / BPE-like vocabularies, canonical or not) walked in lock step; every multi-byte "
                       "mask, accepting flag, forced byte and fast-forward token is compared with the single-byte engine's "
                       "byte-level answers by TLC (spec/Trace_Split.tla)")
    # negative control: flip one probe count
    lines = core.read_lines(os.path.join(wd, "trace0.ndjson"))
    for i, ln in enumerate(lines):
        if '"ev":"Mask"' in ln[:30] and '"ok":1' in ln:
            ev = json.loads(ln)
            if ev["set"]:
                ev["set"] = ev["set"][1:]
                s, e = core.episode_bounds(lines, i)
                bp = os.path.join(wd, "negctl.ndjson")
                open(bp, "w").write("\n".join(lines[s:i] + [json.dumps(ev)]) + "\n")
                r = core.tlc_trace("Trace_Split", bp, tag=f"neg-{prop}")
                res.cov["negative_controls"].append({"dropped_mask_token_rejected": not r["accepted"]})
                if r["accepted"]:
                    raise core.ToolError("negative control accepted")
                break
    return res


def check_threads(tier, seed):
    """C14: U1 Shared.tla (all interleavings of a small clone family) + real threads validated per clone"""
    res = core.Result("C14", tier, seed)
    q = tier == "quick"
    u1 = core.tlc_check("MC_Shared", cfg="MC_Shared_quick.cfg" if q else "MC_Shared.cfg", workers=6 if q else 12, timeout=3600)
    if not u1["ok"]:
        raise core.ToolError("MC_Shared failed:\n" + u1.get("tail", ""))
    res.add_tlc(u1)
    res.cov["u1_models"].append({"model": "MC_Shared (3 clones, clone/deep_clone, lock/take/op/put/release interleavings)",
                                 "distinct_states": u1["distinct"]})
    rng = random.Random(f"C14-{seed}")
    gs = corpus.all_grammars() + random_cfg_grammars(seed, 20)
    # clones that took different branches but sit in the same lexer state / row index are the interesting families
    branchy = [g for g in gs if g[0].startswith("shared_lexeme") or g[0] in ("keywords", "alt_prefixes", "kw_id", "arith",
                                                                              "hand:sibling_lexemes", "doc_toolcall")]
    gs = gs + branchy * 4
    n = 110 if q else 2500
    eps = []
    for i in range(n):
        name, g = gs[(i + seed * 7) % len(gs)] if i < len(gs) else rng.choice(gs)
        eps.append({"gid": name, "gram": g, "vocab": vocab_for(rng, g, rng.choice(["byte", "syn", "lang", "bpe"]), rng.choice([0, 0, 1])),
                    "clones": rng.choice([2, 3, 4, 8, 16]), "ops": rng.randint(8, 20), "seed": rng.randrange(1 << 30),
                    "slices": rng.choice([[], "default"])})
    wd = core.workdir(f"C14-{tier}")
    core.build_harness()
    nsh = 8 if q else 16
    shards = [eps[i::nsh] for i in range(nsh) if eps[i::nsh]]

    def go(ix):
        jp = os.path.join(wd, f"job{ix}.json")
        tp = os.path.join(wd, f"trace{ix}.ndjson")
        json.dump({"episodes": shards[ix]}, open(jp, "w"))
        p = core.run_bin("threads", [jp, tp], timeout=7200)
        st = json.loads(p.stdout.strip().splitlines()[-1])
        tot = core.validate_file("Trace_EngineRel", tp, "C14", tier, seed, cfg="Trace_EngineRel_func.cfg", timeout=7200,
                                 tagbase=f"C14{ix}")
        return st, tot, tp

    outs = core.parallel(go, list(range(len(shards))), workers=nsh)
    for ix, (st, tot, tp) in enumerate(outs):
        res.add_validation(tot)
        res.cov["evaluations"] += st["events"]
        res.cov["threads_spawned"] = res.cov.get("threads_spawned", 0) + sum(e.get("clones", 0) for e in st["episodes"])
        for rj in tot["rejects"]:
            res.violation(signature(rj), rj["replay"])
        if ix == 0:
            for ln in core.read_lines(tp)[1:7]:
                res.sample(json.loads(ln) if len(ln) < 1500 else ln[:300] + "...")
        lines = core.read_lines(tp)
        cur = []
        for ln in lines:
            if '"ev":"Init"' in ln[:40]:
                if len(cur) > 4:
                    res.distinct(hashlib.sha1("\n".join(cur[1:]).encode()).hexdigest())
                cur = []
            cur.append(ln)
    # the batch call (rayon): clone families with diverging histories - some finished, some running - write their masks into
    # ONE contiguous buffer of equal slots; every slot must hold that clone's own mask (twin Rust objects computed one by
    # one), nothing behind the last slot may be touched, and the process must survive (spec/Ffi.tla ParMask)
    short = [g for g in corpus.all_grammars() if g[0] in ("fixed", "ab_abc", "rep_rule", "alt_prefixes", "shared_lexeme", "opt_star_plus",
                                                          "forced_then_free", "nested_rep", "rx:opt", "rx:digits", "kw_id")]
    beps = []
    for i in range(40 if q else 600):
        name, g = short[i % len(short)]
        voc = sized_vocab(rng, rng.choice([33, 64, 65, 97, 257]), gram_text(g)) if rng.random() < 0.7 else vocabs.byte(0)
        beps.append({"gid": "batch:" + name, "gram": g, "vocab": voc, "steps": rng.randint(6, 12), "seed": rng.randrange(1 << 30),
                     "par": rng.choice([4, 5, 8, 16]), "contig": 1, "no_matcher": 1})
    bsh = [beps[i::4] for i in range(4) if beps[i::4]]

    def gob(ix):
        jp = os.path.join(wd, f"bjob{ix}.json")
        tp = os.path.join(wd, f"btrace{ix}.ndjson")
        json.dump({"episodes": bsh[ix]}, open(jp, "w"))
        p = core.run_bin("ffi", [jp, tp], timeout=7200, check=False)
        if p.returncode != 0:
            return {"crash": p.returncode, "stderr": p.stderr[-300:]}, None, jp
        return json.loads(p.stdout.strip().splitlines()[-1]), core.validate_file("Trace_Ffi", tp, "C14", tier, seed, timeout=7200,
                                                                                 tagbase=f"C14b{ix}"), tp

    nbatch = 0
    for st, tot, tp in core.parallel(gob, list(range(len(bsh))), workers=4):
        if tot is None:
            res.violation({"kind": "process-crash-in-batch-call", "rc": st["crash"], "stderr": st["stderr"]}, tp)
            continue
        res.add_validation(tot)
        nbatch += sum(1 for ln in core.read_lines(tp) if '"ev":"ParMask"' in ln[:30])
        for rj in tot["rejects"]:
            res.violation(dict(signature(rj), part="batch-call"), rj["replay"])
    res.cov["batch_masks_compared"] = nbatch
    res.cov["rule"] = ("U1: every interleaving of lock / take-lexer / operate / put-back / release steps of 3 clones "
                       "(clone and deep_clone) in spec/Shared.tla; U3: families of 2..16 clones with diverging histories, "
                       "each driven by its own OS thread through random calls, every event logged at its return; TLC "
                       "(EngineRel, functional view) requires each clone's answers to be the function of its own history "
                       "that private fresh engines replaying that history show")
    res.assumptions += ["data races below the mutex are memory-model questions this technique does not see",
                        "per-call resource limits are not hit (default limits, small grammars)"]
    negative_control("C14", res, view="func")
    return res


def sized_vocab(rng, n, text):
    """a vocabulary of exactly n tokens: the bytes of the grammar text, multi-byte substrings, padding, EOS last"""
    tb = [b for b in text.encode("utf-8", "replace") if b != 0xFF]
    alpha = sorted(set(tb)) or [97]
    words = [[b] for b in alpha][: max(1, n - 3)]
    while len(words) < n - 2:
        if len(tb) > 3 and rng.random() < 0.6:
            i = rng.randrange(len(tb) - 1)
            w = tb[i:i + rng.randint(2, 3)]
        else:
            w = [rng.choice(alpha), rng.choice(alpha), len(words) % 200]
        words.append(list(w))
    words = words[: n - 2]
    words.append(list(b"\xff<a>"))
    words.append(list(b"\xff<|end|>"))
    return {"kind": "list", "words": words, "eos": len(words) - 1, "canonical": 0}


def check_ffi(tier, seed):
    """C17: the C API against twin Rust objects (harness ffi, spec/Trace_Ffi.tla)"""
    res = core.Result("C17", tier, seed)
    q = tier == "quick"
    rng = random.Random(f"C17-{seed}")
    gs = corpus.all_grammars() + random_cfg_grammars(seed, 10)
    sizes = [31, 32, 33, 63, 64, 65, 95, 96, 97, 255, 256, 257, 262]
    eps = []
    for i in range(90 if q else 3000):
        name, g = gs[(i + seed * 5) % len(gs)] if i < len(gs) else rng.choice(gs)
        r = rng.random()
        if r < 0.7:
            voc = sized_vocab(rng, rng.choice(sizes), gram_text(g))
        elif r < 0.85:
            voc = vocabs.byte(0)
        else:
            voc = vocabs.bpe(rng.choice([300, 500]), 0)
        eps.append({"gid": name, "gram": g, "vocab": voc, "steps": rng.randint(4, 10), "seed": rng.randrange(1 << 30),
                    "par": rng.choice([2, 3, 5, 8, 16])})
    wd = core.workdir(f"C17-{tier}")
    core.build_harness()
    nsh = 8 if q else 16
    shards = [eps[i::nsh] for i in range(nsh) if eps[i::nsh]]

    def go(ix):
        jp = os.path.join(wd, f"job{ix}.json")
        tp = os.path.join(wd, f"trace{ix}.ndjson")
        json.dump({"episodes": shards[ix]}, open(jp, "w"))
        p = core.run_bin("ffi", [jp, tp], timeout=7200, check=False)
        if p.returncode != 0:
            # the C API crashed the process: a violation by itself (nothing may abort)
            return {"events": 0, "crash": p.returncode, "stderr": p.stderr[-400:]}, None, jp
        st = json.loads(p.stdout.strip().splitlines()[-1])
        tot = core.validate_file("Trace_Ffi", tp, "C17", tier, seed, timeout=7200, tagbase=f"C17{ix}")
        return st, tot, tp

    outs = core.parallel(go, list(range(len(shards))), workers=nsh)
    for ix, (st, tot, tp) in enumerate(outs):
        if tot is None:
            res.violation({"kind": "process-crash", "rc": st["crash"], "stderr": st["stderr"]}, tp)
            continue
        res.add_validation(tot)
        res.cov["evaluations"] += st["events"]
        for rj in tot["rejects"]:
            m = re.search(r'"api":"(\w+)"', rj["event"])
            res.violation({"kind": rj.get("ev"), "api": m.group(1) if m else None, "gid": signature(rj).get("gid")}, rj["replay"])
        if ix == 0:
            for ln in core.read_lines(tp)[1:8]:
                res.sample(json.loads(ln) if len(ln) < 1200 else ln[:300] + "...")
    res.cov["distinct_nontrivial"] = len({json.dumps(e["gram"]) + str(len(e["vocab"].get("words", []))) for e in eps})
    res.cov["rule"] = ("episodes = grammar x vocabulary (sizes around multiples of 32) with an LlgMatcher and a family of "
                       "LlgConstraints next to twin Rust objects; every C result (mask words, validate count, ff tokens, "
                       "commit result, rollback, error flags) is paired with the Rust result; compute_mask_into is called with "
                       "buffer lengths 0, exact-1, exact, exact+1, 2*exact words and llg_par_compute_mask with shorter / equal "
                       "/ longer buffers between canary words after poisoning the heap; TLC checks equality, zero fill, no "
                       "bits at or above the vocabulary size and intact canaries (spec/Ffi.tla)")
    res.assumptions += ["memory safety proper is outside a state/transition specification: an out-of-bounds read is seen only "
                        "when it changes the buffer contents (heap poisoning makes that likely) or crashes the process"]
    # negative control
    lines = core.read_lines(os.path.join(wd, "trace0.ndjson"))
    for i, ln in enumerate(lines):
        if '"ev":"ParMask"' in ln[:30]:
            ev = json.loads(ln)
            ev["after"] = ev["after"] + [ev["len"] * 32 - 1]
            bp = os.path.join(wd, "negctl.ndjson")
            open(bp, "w").write("\n".join(lines[:i] + [json.dumps(ev)]) + "\n")
            r = core.tlc_trace("Trace_Ffi", bp, tag="neg-C17")
            res.cov["negative_controls"].append({"stray_bit_in_tail_rejected": not r["accepted"]})
            if r["accepted"]:
                raise core.ToolError("negative control accepted")
            break
    return res
