"""C18: stop-sequence controller cases."""
import random

from . import rxgen

ALPHA = [ord(c) for c in "ab !"] + [233, 8364]


def mk_vocab(rng):
    words = [[b] for b in range(256) if b != 255]
    multi = set()
    text_alpha = "ab !é€"
    for _ in range(40):
        s = "".join(rng.choice(text_alpha) for _ in range(rng.randint(2, 3))).encode()
        multi.add(tuple(s))
        if rng.random() < 0.3 and len(s) > 2:
            multi.add(tuple(s[:-1]))      # may end inside a character
    words += [list(m) for m in sorted(multi)]
    words.append([])                       # an empty token
    first_special = len(words)
    for nm in (b"\xff<|a|>", b"\xff<b!>", b"\xff<|end|>"):
        words.append(list(nm))
    return {"kind": "list", "words": words, "eos": len(words) - 1}, first_special


def split(rng, words_by_first, data):
    out = []
    i = 0
    while i < len(data):
        cands = [(t, w) for (t, w) in words_by_first.get(data[i], []) if data[i:i + len(w)] == bytes(w)]
        t, w = rng.choice(cands)
        out.append(t)
        i += len(w)
    return out


def case(rng):
    voc, fs = mk_vocab(rng)
    words = voc["words"]
    by_first = {}
    for t, w in enumerate(words[:fs]):
        if w:
            by_first.setdefault(w[0], []).append((t, w))
    n = len(words)
    stop_tokens = []
    if rng.random() < 0.6:
        stop_tokens.append(n - 1)
    if rng.random() < 0.3:
        stop_tokens.append(rng.randrange(0, fs))
    strs = []
    for _ in range(rng.choice([0, 1, 1, 2])):
        strs.append("".join(chr(rng.choice(ALPHA)) for _ in range(rng.randint(1, 3))))
    rx_ast = None
    rx_text = None
    if rng.random() < 0.5:
        body = rxgen.r_node(rng, ALPHA, rng.randint(1, 3), icase_ok=False)
        rx_ast = {"k": "cat", "a": [rxgen.r_lit(rng, ALPHA, 1), body]}     # never matches the empty string
        rx_text = rxgen.rx_text(rx_ast)
    alts = [{"k": "lit", "s": [ord(c) for c in s]} for s in strs] + ([rx_ast] if rx_ast else [])
    full = None if not alts else (alts[0] if len(alts) == 1 else {"k": "alt", "a": alts})
    seqs = []
    for _ in range(4):
        chars = "".join(chr(rng.choice(ALPHA)) for _ in range(rng.randint(0, 8)))
        if strs and rng.random() < 0.7:
            chars += rng.choice(strs) + "".join(chr(rng.choice(ALPHA)) for _ in range(rng.randint(0, 3)))
        toks = split(rng, by_first, chars.encode())
        # sprinkle special / empty tokens and stop tokens, at character boundaries only (the claim is
        # about the decoded text of the committed tokens, i.e. token sequences that decode)
        def boundaries(ts):
            out, acc = [0], b""
            for i, t in enumerate(ts):
                acc += bytes(words[t])
                try:
                    acc.decode("utf-8")
                    out.append(i + 1)
                except UnicodeDecodeError:
                    pass
            return out
        if rng.random() < 0.4 and toks:
            toks.insert(rng.choice(boundaries(toks)), rng.choice([fs, fs + 1, fs - 1]))
        if stop_tokens and rng.random() < 0.6:
            toks.insert(rng.choice(boundaries(toks)), rng.choice(stop_tokens))
        toks += split(rng, by_first, "".join(chr(rng.choice(ALPHA)) for _ in range(rng.randint(0, 3))).encode())
        seqs.append(toks)
    return {"vocab": voc, "stop_tokens": stop_tokens, "stop_strings": strs, "stop_regex": rx_text, "rx": full, "seqs": seqs}
