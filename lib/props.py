"""Registry: property id -> check function(tier, seed) -> core.Result."""
import json
import os

from . import core, rel


def c01(tier, seed):
    from . import corpus
    gs = corpus.all_grammars() + rel.random_cfg_grammars(seed, 40 if tier == "quick" else 800)
    return rel.check_rel("C01", tier, seed, 120, 2500, grammars=gs)


def c10(tier, seed):
    from . import corpus
    gs = corpus.all_grammars()
    # states in which the slicer must refuse (lazy lexemes next to greedy ones) get extra weight
    lazy = [g for g in gs if g[1]["kind"] == "lark" and ("[lazy" in g[1]["text"] or "suffix=" in g[1]["text"])]
    strs = [g for g in gs if g[1]["kind"] == "json"]
    # lexemes mixing character classes, where custom slice lists (siblings, nested slices) apply only partly
    mix = [g for g in gs if g[0].startswith("class_mix") or g[0] in ("keywords",)]
    return rel.check_rel("C10", tier, seed, 240, 4000, grammars=gs + lazy * 6 + strs + mix * 8,
                         vocab_choices=("syn", "bpe", "bpe", "lang"))


def c11(tier, seed):
    from . import corpus
    # C11 quantifies over every grammar, so grammars outside the core fragment take part too
    gs = corpus.all_grammars() + corpus.ext_grammars() * 3
    return rel.check_rel("C11", tier, seed, 160, 3000, grammars=gs)


def c12(tier, seed):
    return rel.check_rel("C12", tier, seed, 130, 3000)


def c04(tier, seed):
    from . import exact
    res = core.Result("C04", tier, seed)
    n = 90 if tier == "quick" else 2500
    job = exact.regex_job("C04", seed, n)
    rejects = rel.drive_and_validate("C04", tier, seed, job, res, nshards=12 if tier == "quick" else 16,
                                     module="Trace_Regex", timeout=900 if tier == "quick" else 7200)
    for rj in rejects:
        res.violation(rel.signature(rj), rj["replay"])
    rel.negative_control("C04", res, module="Trace_Regex")
    res.cov["rule"] = ("episodes = random walks of the real engine over a random surface regex (all operators, three entry "
                       "points) and a small vocabulary; TLC recomputes every mask / verdict / forced byte from the regex "
                       "by derivatives (spec/Trace_Regex.tla); distinct = distinct recorded episodes; a fifth of the small-alphabet "
                       "episodes walk every allowed byte string up to a depth bound instead (exhaustive_walk_nodes)")
    return res


def c05(tier, seed):
    from . import exact
    res = core.Result("C05", tier, seed)
    q = tier == "quick"
    parts = [("C05", "ebnf", exact.cfg_job("C05", seed, 90 if q else 1600), "Trace_Cfg", 10 if q else 16),
             ("C05p", "parametric", exact.pcfg_job("C05", seed, 40 if q else 900), "Trace_CfgP", 6 if q else 16),
             # conditional nullability: the family of guarded chains s0 -> s1 -> .. (paramgen.nullable_family), a sample at
             # the quick tier, every member (with a two-byte exhaustive walk) at the thorough tier
             ("C05n", "nullable-chains", exact.pnull_job("C05", seed, 600 if q else None, deep=not q), "Trace_CfgP", 6 if q else 16)]

    def go(p):
        tag, part, job, module, ns = p
        return part, rel.drive_and_validate(tag, tier, seed, job, res, nshards=ns, module=module,
                                            timeout=900 if q else 7200)

    for part, rejects in core.parallel(go, parts, workers=3 if q else 1):
        for rj in rejects:
            res.violation(dict(rel.signature(rj), part=part), rj["replay"])
    rel.negative_control("C05", res, module="Trace_Cfg")
    rel.negative_control("C05p", res, module="Trace_CfgP")
    from . import oracle
    oracle.check("C05", tier, seed, res)
    res.cov["rule"] = ("episodes = random walks of the real engine over (a) a random / hand-written EBNF grammar of the "
                       "non-confusable fragment, (b) a random parametric grammar of the shapes in docs/parametric.md "
                       "(permutation, at-least-once, bounded counters, bounded a*b*, pick k of n, countdown with "
                       "decr/bit_or/bit_and/not/or, nested with nullable instances), each with a vocabulary of tokens spanning "
                       "its terminals; TLC recomputes every mask / verdict with Earley item sets over bytes "
                       "(spec/Cfg.tla + Trace_Cfg.tla; spec/CfgP.tla + Trace_CfgP.tla, items carry the parameter value); about a fifth of "
                       "the episodes are exhaustive instead of random: every byte string up to a depth bound that the masks "
                       "allow is walked with commit / rollback (single-byte tokens), mask and accepting flag checked at every "
                       "node (exhaustive_walk_nodes)")
    return res


def _c08_signature(why):
    """classify a rejected numeric case from TLC's own diagnostics (spec/Trace_Numeric.tla Explain)"""
    import re
    flat = " ".join(why.split())
    m = re.search(r'multipleOf\\":([0-9.]+)', flat)
    mism = re.findall(r'<<"([-0-9.]+)", "expected", (TRUE|FALSE), "got", (\d)>>', flat)
    sig = {"kind": "other", "schema": re.search(r'"WHY", "(.*?)", "compiled"', flat).group(1) if '"WHY"' in flat else flat[:200],
           "mismatches": [f"{t}:{e}:{g}" for t, e, g in mism][:6]}
    if m and "." in m.group(1) and mism:
        k = len(m.group(1).split(".")[1])
        def nfrac(t):
            return len(t.split(".")[1]) if "." in t else 0
        if all(e == "TRUE" and g == "0" and nfrac(t) != k for t, e, g in mism):
            sig["kind"] = "fractional-multipleOf-needs-exact-digit-count"
    return sig


def c08(tier, seed):
    import random
    from fractions import Fraction as Fr
    from . import num, numgen
    res = core.Result("C08", tier, seed)
    rng = random.Random(f"C08-{seed}")
    int_muls = [None, None, Fr(1), Fr(2), Fr(3), Fr(7), Fr(10)]
    if tier == "quick":
        cases = numgen.grid(rng, 7, int_muls, decimal_share=0.25, big_share=0.08, limit=1800)
        frac = numgen.grid(rng, 3, [Fr("0.5"), Fr("0.25")], decimal_share=0.3, big_share=0, limit=24)
        nsh = 12
    else:
        cases = numgen.grid(rng, 40, int_muls, decimal_share=0.25, big_share=0.08, limit=60000)
        frac = numgen.grid(rng, 8, [Fr("0.5"), Fr("0.25"), Fr("0.1"), Fr("2.5")], decimal_share=0.3, big_share=0, limit=120)
        nsh = 16
    cs = numgen.build_cases(rng, cases)
    rejects = num.run_cases("C08", tier, seed, cs, res, "Trace_Numeric", nshards=nsh, timeout=7200)
    # fractional multipleOf separately (a known dependency limitation lives there)
    cf = numgen.build_cases(rng, frac)
    rejects += num.run_cases("C08f", tier, seed, cf, res, "Trace_Numeric", nshards=4, timeout=3600)
    for rj in rejects:
        why = num.explain("Trace_Numeric", rj["replay"])
        res.violation(_c08_signature(why), rj["replay"])
    res.cov["rule"] = ("cases = numeric schemas from a grid (all integer pairs in a window x inclusive/exclusive x "
                       "integer/number x multipleOf, decimal bounds, magnitudes near powers of ten) each with ~40 plain "
                       "decimal literals in and around the interval; TLC decides every verdict with exact digit-sequence "
                       "arithmetic (spec/Numeric.tla); evaluations = literal verdicts")
    res.cov["distinct_nontrivial"] = len({c["gram"]["text"] for c in cs + cf})
    # negative control: flip one verdict of a recorded case, TLC must reject it
    wd = core.os.path.join(core.WORK, f"C08-{tier}")
    lines = core.read_lines(core.os.path.join(wd, "trace0.ndjson"))
    ev = json.loads(lines[1])
    if ev.get("lits"):
        ev["lits"][0]["acc"] = 1 - min(1, ev["lits"][0]["acc"])
        bp = core.os.path.join(wd, "negctl.ndjson")
        open(bp, "w").write(lines[0] + "\n" + json.dumps(ev) + "\n")
        r = core.tlc_trace("Trace_Numeric", bp, tag="neg-C08")
        res.cov["negative_controls"].append({"flipped_verdict_rejected": not r["accepted"]})
        if r["accepted"]:
            raise core.ToolError("negative control accepted")
    res.assumptions += ["TLC; harness num driver (feeds literal bytes + EOS through validate_tokens on a single-byte vocabulary)",
                        "all-zero fractions (1.0) and negative zero are not generated"]
    return res


def _c09_signature(why):
    import re
    flat = " ".join(why.split())
    m = re.search(r'"WHY", "(.*?)", "compiled"', flat)
    return {"kind": "count", "grammar": m.group(1)[:200] if m else flat[:200],
            "mismatches": re.findall(r'<<(<<[0-9, ]+>>), "expected", (TRUE|FALSE), "got", (\d)>>', flat)[:5]}


def c09(tier, seed):
    import random
    from . import num, countgen
    res = core.Result("C09", tier, seed)
    rng = random.Random(f"C09-{seed}")
    # U1: the K-factored encoding of grammar_builder.rs, transcribed (spec/Repeat.tla), admits exactly m..n
    u1 = core.tlc_check("MC_Repeat", workers=4, timeout=900)
    if not u1["ok"]:
        raise core.ToolError("MC_Repeat failed:\n" + u1.get("tail", ""))
    res.add_tlc(u1)
    res.cov["u1_models"].append({"model": "MC_Repeat (K=4, all 0<=m<=n<=40 and unbounded)", "distinct_states": u1["distinct"]})
    if tier == "quick":
        cases = countgen.build(rng, 16, 150, stride=3)
    else:
        cases = countgen.build(rng, 40, 3000)
    rejects = num.run_cases("C09", tier, seed, cases, res, "Trace_Count", nshards=12 if tier == "quick" else 16, timeout=7200)
    for rj in rejects:
        res.violation(_c09_signature(num.explain("Trace_Count", rj["replay"])), rj["replay"])
    res.cov["distinct_nontrivial"] = len({c["meta"]["gtext"] for c in cases})
    res.cov["rule"] = ("cases = one grammar/schema per (m, n, level): x{m,n} / x{m,} / * + ? on a rule, a group, nested, a "
                       "terminal, inside a regex; JSON min/maxItems, min/maxLength (1-4 byte characters, escapes), "
                       "min/maxProperties; pairs of repetitions of one rule; probes with k = 0..n+3 copies; TLC decides "
                       "m <= k <= n (spec/Trace_Count.tla); evaluations = probe verdicts")
    wd = core.os.path.join(core.WORK, f"C09-{tier}")
    lines = core.read_lines(core.os.path.join(wd, "trace0.ndjson"))
    ev = json.loads(lines[1])
    ev["lits"][0]["acc"] = 1 - min(1, ev["lits"][0]["acc"])
    bp = core.os.path.join(wd, "negctl.ndjson")
    open(bp, "w").write(lines[0] + "\n" + json.dumps(ev) + "\n")
    r = core.tlc_trace("Trace_Count", bp, tag="neg-C09")
    res.cov["negative_controls"].append({"flipped_verdict_rejected": not r["accepted"]})
    if r["accepted"]:
        raise core.ToolError("negative control accepted")
    return res


def c06(tier, seed):
    from . import jsonchk
    return jsonchk.check("C06", tier, seed)


def c07(tier, seed):
    from . import jsonchk
    return jsonchk.check("C07", tier, seed)


def c16(tier, seed):
    from . import naive
    return naive.check(tier, seed)


def c18(tier, seed):
    from . import c18 as m
    return m.check(tier, seed)


def c02(tier, seed):
    return rel.check_split("C02", tier, seed, 110, 3000)


def c13(tier, seed):
    return rel.check_split("C13", tier, seed, 90, 3000)


def _ws_trap(job):
    """ask the driver to report states in which only whitespace is ever offered (a dead end of a JSON grammar)"""
    for e in job["episodes"]:
        e["ws_trap"] = 1
    return job


def c03(tier, seed):
    """no dead ends: (a) exact mode on byte-complete vocabularies: an allowed token always leaves a state from which
    a match is reachable (mask = live set) and an empty mask / NoExtensionBias has no action; (b) protocol on JSON
    schemas with numeric ranges, multipleOf, lengths, formats, intersections (learned oracle, byte-complete
    vocabularies): never an empty mask, NoExtensionBias or a normal stop in a non-accepting state."""
    import random
    from . import exact, jsgen, corpus
    res = core.Result("C03", tier, seed)
    q = tier == "quick"
    rng = random.Random(f"C03-{seed}")
    gs = [g for g in corpus.all_grammars() if g[1]["kind"] == "json"]
    for i in range(60 if q else 2500):
        schema, _p, _k = jsgen.top_schema(rng, full=False, depth=rng.choice([1, 2, 2]))
        gs.append((f"gen{i}", {"kind": "json", "schema": schema}))
    # integers in narrow windows (few or single witnesses): an off-by-one bound empties the language, which shows
    # as a state that can only ever be continued by whitespace
    fam = jsgen.tight_integer_family()
    single = [m for m in fam if m[0].endswith("w1")]
    for name, schema in (rng.sample(single, 140) + rng.sample(fam, 40) if q else fam):
        gs.append((name, {"kind": "json", "schema": schema}))
    # intersections of string constants in optional / required positions: a disjoint one has to be dropped or refused at
    # construction; compiled into a terminal that can never match it is a dead end right after the key
    afam = [m for m in jsgen.allof_family() if ":str" in m[0]]
    for name, schema, _texts in (rng.sample(afam, 50) if q else afam):
        gs.append((name, {"kind": "json", "schema": schema}))
    parts = [
        ("C03", "regex", exact.regex_job("C03", seed, 24 if q else 1200, byte_complete=True), "Trace_Regex", None),
        ("C03b", "cfg", exact.cfg_job("C03", seed, 24 if q else 1200, byte_complete=True), "Trace_Cfg", None),
        ("C03c", "json-protocol", _ws_trap(rel.build_job("C03", tier, seed, len(gs), gs, steps=(15, 40), vocab_choices=("byte", "lang", "bpe"))),
         "Trace_EngineRel", "all"),
    ]

    def go(p):
        tag, part, job, module, view = p
        return part, rel.drive_and_validate(tag, tier, seed, job, res, nshards=5 if q else 16, module=module, cfg_view=view,
                                            timeout=7200)

    for part, rejects in core.parallel(go, parts, workers=3 if q else 1):
        for rj in rejects:
            res.violation(dict(rel.signature(rj), part=part), rj["replay"])
    res.cov["rule"] = ("episodes = (a) random regexes / EBNF grammars with byte-complete vocabularies validated in exact mode "
                       "(mask = set of tokens after which a match is still reachable; empty masks have no action); (b) JSON "
                       "schemas (numeric ranges, multipleOf, lengths, formats, allOf) walked through the masks with "
                       "byte-complete vocabularies under the protocol model: no empty mask / NoExtensionBias / normal stop "
                       "in a non-accepting state, and no state in which only whitespace is offered four times in a row (WsTrap: whitespace is "
                       "never required in JSON, so such a state cannot be completed)")
    res.assumptions += ["liveness beyond the walked histories for unbounded JSON strings is covered only by the exact-mode part"]
    return res


def c14(tier, seed):
    return rel.check_threads(tier, seed)


def c17(tier, seed):
    return rel.check_ffi(tier, seed)


def c19(tier, seed):
    """special tokens only where the grammar names them: (a) grammars mixing text and token references in exact
    mode (Trace_Tok), incl. tokenisation of names vs marker forms; (b) text-only regex / CFG grammars over
    vocabularies whose special names overlap the grammar text (Trace_Regex / Trace_Cfg: mask has no special)."""
    from . import exact, vocabs
    res = core.Result("C19", tier, seed)
    q = tier == "quick"
    j1 = exact.tok_job("C19", seed, 64 if q else 3000)
    # (b) text grammars; plus the recorded finding: complement lets special tokens in
    j2 = exact.regex_job("C19", seed, 20 if q else 800)
    j2["episodes"].insert(0, {"gid": "kf:complement-allows-special-tokens", "mode": "C19", "seed": 1, "steps": 0,
                              "gram": {"kind": "lark", "text": "start: T\nT: ~/a/\n"},
                              "cfgs": [{"vocab": vocabs.byte(0), "vid": 0, "slices": []}], "w": {}, "log_vocab": 1,
                              "init_extra": {"rx": {"k": "not", "a": {"k": "lit", "s": [97]}}, "entry": "lark_term"},
                              "script": [["mask", 0]]})
    j3 = exact.cfg_job("C19", seed, 20 if q else 800)
    parts = [("C19", "token-references", j1, "Trace_Tok"), ("C19b", "text-regex", j2, "Trace_Regex"), ("C19c", "text-cfg", j3, "Trace_Cfg")]

    def go(p):
        tag, part, job, module = p
        return part, rel.drive_and_validate(tag, tier, seed, job, res, nshards=10 if q else 16, module=module, timeout=7200)

    for part, rejects in core.parallel(go, parts, workers=3 if q else 1):
        for rj in rejects:
            res.violation(dict(rel.signature(rj), part=part), rj["replay"])
    res.cov["rule"] = ("episodes = (a) random grammars mixing text literals with <name>, <[id]>, <[a-b,c]>, <[^..]>, <[*]> over "
                       "vocabularies whose special-token names overlap grammar text; TLC keeps a set of Earley charts (token "
                       "read as bytes / as itself) and requires every mask to be exactly the tokens with a surviving reading; "
                       "tokenisation probes: a name as plain text never yields a special id, marker forms yield exactly it; "
                       "(b) text-only regex / EBNF grammars: no special token and no bare marker in any mask")
    res.assumptions += ["token sets of one grammar are pairwise identical or disjoint (overlapping token-identity terminals are "
                        "confusable terminals); a token that can be read both ways continues with the identity reading, as "
                        "the implementation does; no rollback in these episodes"]
    return res


def c15(tier, seed):
    from . import optchk
    return optchk.check(tier, seed)


def c20(tier, seed):
    from . import fuzz
    return fuzz.check(tier, seed)


CHECKS = {"C20": c20, "C15": c15, "C19": c19, "C17": c17, "C14": c14, "C03": c03, "C13": c13, "C02": c02, "C18": c18, "C16": c16, "C06": c06, "C07": c07, "C09": c09, "C08": c08, "C04": c04, "C05": c05, "C01": c01, "C10": c10, "C11": c11, "C12": c12}


def setup():
    core.build_harness()
    core.build_harness("checked")
    return 0


SPEC_OF = {"C01": ("Trace_EngineRel", "Trace_EngineRel_all.cfg"), "C10": ("Trace_EngineRel", "Trace_EngineRel_func.cfg"),
           "C11": ("Trace_EngineRel", "Trace_EngineRel_func.cfg"), "C12": ("Trace_EngineRel", "Trace_EngineRel_func.cfg"),
           "C04": ("Trace_Regex", None), "C05": ("Trace_Cfg", None), "C08": ("Trace_Numeric", None),
           "C09": ("Trace_Count", None), "C16": ("Trace_Naive", None), "C02": ("Trace_Split", None), "C20": ("Trace_Lifecycle", None), "C15": ("Trace_Lang2", None), "C19": ("Trace_Tok", "Trace_Tok.cfg"), "C17": ("Trace_Ffi", None), "C14": ("Trace_EngineRel", "Trace_EngineRel_func.cfg"), "C03": ("Trace_EngineRel", "Trace_EngineRel_all.cfg"), "C13": ("Trace_Split", None), "C18": ("Trace_EngineRel", "Trace_EngineRel_all.cfg"), "C06": ("Trace_Json", None), "C07": ("Trace_Json", None)}


def replay(prop, path):
    """Re-validate a saved replay episode with the specification that rejected it."""
    module, cfg = SPEC_OF.get(prop, ("Trace_EngineRel", "Trace_EngineRel_all.cfg"))
    # properties decided by several trace specifications: the Init event says which one recorded the episode
    try:
        init = json.loads(core.read_lines(path)[0])
    except Exception:
        init = {}
    if init.get("ev") == "Init":
        gid = str(init.get("gid", ""))
        if "lex" in init:
            module, cfg = "Trace_Lex", None
        elif gid.startswith("batch:"):
            module, cfg = "Trace_Ffi", None
        elif "pcfg" in init:
            module, cfg = "Trace_CfgP", None
        elif "rx" in init:
            module, cfg = "Trace_Regex", None
        elif "cfg" in init and gid.startswith("tok"):
            module, cfg = "Trace_Tok", "Trace_Tok.cfg"
        elif "cfg" in init:
            module, cfg = "Trace_Cfg", None
    r = core.tlc_trace(module, path, cfg=cfg, tag=f"replay-{prop}", extra_env={"JVIEW": prop} if prop in ("C06", "C07") else None)
    if r["accepted"]:
        print("replay accepted by the specification")
        return 0
    lines = core.read_lines(path)
    print(f"replay rejected at event {r['reject_at']}: {lines[r['reject_at']-1][:300]}")
    print(f"VIOLATION property={prop} replay={path}")
    return 1
