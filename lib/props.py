"""Registry: property id -> check function(tier, seed) -> core.Result."""
import json
import os

from . import core, rel


def c01(tier, seed):
    return rel.check_rel("C01", tier, seed, 100, 2000)


def c10(tier, seed):
    from . import corpus
    gs = corpus.all_grammars()
    # states in which the slicer must refuse (lazy lexemes next to greedy ones) get extra weight
    lazy = [g for g in gs if g[1]["kind"] == "lark" and ("[lazy" in g[1]["text"] or "suffix=" in g[1]["text"])]
    strs = [g for g in gs if g[1]["kind"] == "json"]
    return rel.check_rel("C10", tier, seed, 240, 4000, grammars=gs + lazy * 6 + strs,
                         vocab_choices=("syn", "bpe", "bpe", "lang"))


def c11(tier, seed):
    from . import corpus
    # C11 quantifies over every grammar, so grammars outside the core fragment take part too
    gs = corpus.all_grammars() + corpus.ext_grammars() * 3
    return rel.check_rel("C11", tier, seed, 160, 3000, grammars=gs)


def c12(tier, seed):
    return rel.check_rel("C12", tier, seed, 130, 3000)


def c04(tier, seed):
    from . import exact
    res = core.Result("C04", tier, seed)
    n = 90 if tier == "quick" else 2500
    job = exact.regex_job("C04", seed, n)
    rejects = rel.drive_and_validate("C04", tier, seed, job, res, nshards=12 if tier == "quick" else 16,
                                     module="Trace_Regex", timeout=900 if tier == "quick" else 7200)
    for rj in rejects:
        res.violation(rel.signature(rj), rj["replay"])
    rel.negative_control("C04", res, module="Trace_Regex")
    res.cov["rule"] = ("episodes = random walks of the real engine over a random surface regex (all operators, three entry "
                       "points) and a small vocabulary; TLC recomputes every mask / verdict / forced byte from the regex "
                       "by derivatives (spec/Trace_Regex.tla); distinct = distinct recorded episodes")
    return res


def c05(tier, seed):
    from . import exact
    res = core.Result("C05", tier, seed)
    n = 100 if tier == "quick" else 3000
    job = exact.cfg_job("C05", seed, n)
    rejects = rel.drive_and_validate("C05", tier, seed, job, res, nshards=12 if tier == "quick" else 16,
                                     module="Trace_Cfg", timeout=900 if tier == "quick" else 7200)
    for rj in rejects:
        res.violation(rel.signature(rj), rj["replay"])
    rel.negative_control("C05", res, module="Trace_Cfg")
    res.cov["rule"] = ("episodes = random walks of the real engine over a random / hand-written EBNF grammar of the "
                       "non-confusable fragment and a vocabulary of tokens spanning its terminals; TLC recomputes every "
                       "mask / verdict / forced byte with Earley item sets (spec/Cfg.tla, Trace_Cfg.tla)")
    return res


CHECKS = {"C04": c04, "C05": c05, "C01": c01, "C10": c10, "C11": c11, "C12": c12}


def setup():
    core.build_harness()
    return 0


def replay(prop, path):
    """Re-validate a saved replay episode with the specification that rejected it."""
    view = rel.VIEW.get(prop, "all")
    r = core.tlc_trace("Trace_EngineRel", path, cfg=f"Trace_EngineRel_{view}.cfg", tag=f"replay-{prop}")
    if r["accepted"]:
        print("replay accepted by the specification")
        return 0
    lines = core.read_lines(path)
    print(f"replay rejected at event {r['reject_at']}: {lines[r['reject_at']-1][:300]}")
    print(f"VIOLATION property={prop} replay={path}")
    return 1
