"""Registry: property id -> check function(tier, seed) -> core.Result."""
import json
import os

from . import core, rel


def c01(tier, seed):
    return rel.check_rel("C01", tier, seed, 48, 1500)


def c10(tier, seed):
    return rel.check_rel("C10", tier, seed, 48, 1500, vocab_choices=("syn", "bpe", "bpe"))


def c11(tier, seed):
    return rel.check_rel("C11", tier, seed, 56, 2000)


def c12(tier, seed):
    return rel.check_rel("C12", tier, seed, 56, 2000)


CHECKS = {"C01": c01, "C10": c10, "C11": c11, "C12": c12}


def setup():
    core.build_harness()
    return 0


def replay(prop, path):
    """Re-validate a saved replay episode with the specification that rejected it."""
    view = rel.VIEW.get(prop, "all")
    r = core.tlc_trace("Trace_EngineRel", path, cfg=f"Trace_EngineRel_{view}.cfg", tag=f"replay-{prop}")
    if r["accepted"]:
        print("replay accepted by the specification")
        return 0
    lines = core.read_lines(path)
    print(f"replay rejected at event {r['reject_at']}: {lines[r['reject_at']-1][:300]}")
    print(f"VIOLATION property={prop} replay={path}")
    return 1
