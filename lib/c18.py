"""C18: stop / EOS / accepting consistency: Matcher protocol (EngineRel), Constraint (sampling loop) against a
twin Matcher (Constraint.tla), stop-sequence controller (StopCtl.tla)."""
import json
import os
import random
import re

from . import core, corpus, rel, stopgen, vocabs


def _run(binary, module, prop_tag, tier, seed, jobs, res, key, nshards, sig):
    wd = core.workdir(f"{prop_tag}-{tier}")
    core.build_harness()
    shards = [jobs[i::nshards] for i in range(nshards) if jobs[i::nshards]]

    def go(ix):
        jp = os.path.join(wd, f"job{ix}.json")
        tp = os.path.join(wd, f"trace{ix}.ndjson")
        json.dump({key: shards[ix]}, open(jp, "w"))
        p = core.run_bin(binary, [jp, tp], timeout=7200, check=False)
        if p.returncode != 0:
            return None, None, jp, p.stderr[-500:]
        st = json.loads(p.stdout.strip().splitlines()[-1])
        tot = core.validate_file(module, tp, "C18", tier, seed, timeout=7200, tagbase=f"{prop_tag}{ix}", max_rejects=6)
        return st, tot, tp, ""

    for ix, (st, tot, tp, err) in enumerate(core.parallel(go, list(range(len(shards))), workers=nshards)):
        if tot is None:
            res.violation({"kind": "process-crash", "driver": binary, "stderr": err}, tp)
            continue
        res.add_validation(tot)
        res.cov["evaluations"] += st["events"]
        for rj in tot["rejects"]:
            res.violation(sig(rj), rj["replay"])
        if ix == 0:
            for ln in core.read_lines(tp)[1:5]:
                res.sample(json.loads(ln) if len(ln) < 1200 else ln[:300] + "...")


def _constraint_sig(rj):
    lines = core.read_lines(rj["replay"])
    init = json.loads(lines[0])
    ev = json.loads(lines[rj["index"]]) if rj["index"] < len(lines) else {}
    prev = json.loads(lines[rj["index"] - 1]).get("ev") if rj["index"] >= 1 else None
    sig = {"part": "constraint", "gid": init.get("gid"), "ff": init.get("ff"), "ev": ev.get("ev"), "res": ev.get("res"), "prev": prev,
           "class": "other"}
    if ev.get("ev") == "CCommit" and ev.get("res") == "ok" and init.get("ff") == 1 and prev in ("CNew", "CCommit"):
        sig["class"] = "commit-without-mask-returns-ok"
    return sig


def _stop_sig(rj):
    lines = core.read_lines(rj["replay"])
    ev = json.loads(lines[rj["index"]]) if rj["index"] < len(lines) else {}
    init = json.loads(lines[0])
    sig = {"part": "stop-controller", "ev": ev.get("ev"), "ok": ev.get("ok"), "class": "other", "gid": init.get("gid")}
    if ev.get("ev") == "StopCommit" and ev.get("ok") == 0:
        # the panic class is recorded only for the targeted invalid-UTF-8 case
        toks = [json.loads(x).get("t") for x in lines[1:rj["index"] + 1] if '"StopCommit"' in x]
        tokb = init["tok"]
        data = b"".join(bytes(tokb[t]) for t in toks if t is not None and t < len(tokb) and (not tokb[t] or tokb[t][0] != 255))
        try:
            data.decode("utf-8")
        except UnicodeDecodeError as e:
            if e.reason != "unexpected end of data":
                sig["class"] = "panic-on-invalid-utf8-token-sequence"
    return sig


def check(tier, seed):
    q = tier == "quick"
    # part 1: the Matcher protocol on the learned-oracle model (stop reasons, EOS, error latch, calls after stop)
    res = rel.check_rel("C18", tier, seed, 90 if q else 3000, 3000)
    rng = random.Random(f"C18-{seed}")
    # part 2: Constraint vs twin Matcher
    gs = corpus.all_grammars()
    eps = []
    for i in range(90 if q else 3000):
        n, g = gs[(i + seed * 3) % len(gs)] if i < len(gs) else rng.choice(gs)
        ff = rng.choice([0, 1])
        eps.append({"gid": n, "gram": g, "vocab": vocabs.byte(1) if ff else rel.vocab_for(rng, g, rng.choice(["byte", "lang", "syn"]), 0),
                    "ff": ff, "steps": rng.randint(10, 24), "seed": rng.randrange(1 << 30), "illegal_pct": rng.choice([0, 10, 25]),
                    "nomask_pct": 0 if ff else rng.choice([0, 15])})
    # the recorded defect: with the fast-forward capability a commit without a preceding mask "succeeds"
    eps.insert(0, {"gid": "kf:commit-without-mask", "gram": {"kind": "lark", "text": 'start: "ab" /[xy]/\n'}, "vocab": vocabs.byte(1),
                   "ff": 1, "steps": 6, "seed": 7, "illegal_pct": 0, "nomask_pct": 100})
    _run("constraint", "Trace_Constraint", "C18c", tier, seed, eps, res, "episodes", 8 if q else 16, _constraint_sig)
    # part 3: stop-sequence controller
    cases = [stopgen.case(rng) for _ in range(60 if q else 2500)]
    kf = stopgen.case(random.Random(1))
    kf.update({"vocab": vocabs.byte(0), "stop_tokens": [], "stop_strings": [], "stop_regex": "STOP",
               "rx": {"k": "lit", "s": [83, 84, 79, 80]}, "seqs": [[97, 195, 98]], "gid": "kf:stop-invalid-utf8"})
    cases.insert(0, kf)
    _run("stopctl", "Trace_StopCtl", "C18s", tier, seed, cases, res, "cases", 8 if q else 16, _stop_sig)
    res.cov["rule"] = ("three scenario families, each validated by TLC: (1) Matcher call sequences incl. illegal calls (EngineRel); "
                       "(2) Constraint next to a twin Matcher fed the same tokens, with/without fast-forward tokens, commits "
                       "without mask / without token / out of range / outside the mask, calls after stop (Constraint.tla); (3) "
                       "stop-sequence controller runs: stop tokens, stop strings and regexes split across tokens, overlapping "
                       "candidates, multi-byte characters, special and empty tokens; total returned text = text before the "
                       "earliest-ending match, whole characters only, nothing after stop (StopCtl.tla)")
    return res
