"""Vocabulary descriptors handed to the harness (which builds the tries and logs the tables)."""
import random

ULYSSES = "/repo/parser/tests/data/ulysses.md"

JSON_TEXT = ('{"title": "x", "tags": ["a", "ab"], "n": 12, "id": "ab12", "next": null, "v": true, "false": false, '
             '"name": "foo", "items": [1, 2, 3], "value": -1.5, "date": "2024-01-31"} ') * 40

SPECIALS = [b"\xff<|tool|>", b"\xff<|user|>", b"\xff<a>", b"\xff<[3]>", b"\xff<|end|>"]


def byte(canonical=0):
    return {"kind": "byte", "canonical": canonical}


def bpe(merges, canonical=0, limit=150000):
    return {"kind": "bpe", "corpus": ULYSSES, "merges": merges, "limit": limit, "canonical": canonical,
            "extra_text": JSON_TEXT}


def synthetic(rng, text_hint, n_multi=60, maxlen=3, canonical=0, all_bytes=True, dups=True):
    """All single bytes (optionally), random multi-byte strings over an alphabet drawn from the
    grammar text (so they matter), duplicates, tokens that are prefixes of others, pieces of
    UTF-8 characters, a 40-byte chain; specials last, EOS = last id."""
    if isinstance(text_hint, str):
        text_hint = text_hint.encode("utf-8", "replace")
    alpha = sorted(set(b for b in text_hint if b not in (0xFF,)))
    if not alpha:
        alpha = list(b"ab")
    if len(alpha) > 24:
        alpha = rng.sample(alpha, 24)
    alpha = list(set(alpha) | set(b'a1"'))
    words = []
    if all_bytes:
        words = [[b] for b in range(256)]
    else:
        words = [[b] for b in alpha]
    seen = set()
    # substrings of the hint are the most useful multi-byte tokens
    for _ in range(n_multi):
        if len(text_hint) > 4 and rng.random() < 0.5:
            i = rng.randrange(len(text_hint) - 1)
            w = list(text_hint[i:i + rng.randint(2, maxlen + 1)])
        else:
            w = [rng.choice(alpha) for _ in range(rng.randint(2, maxlen))]
        if rng.random() < 0.25:
            w = w + [rng.choice(alpha)]   # a token that straddles the end of a grammar literal
        if 0xFF in w or not w:
            continue
        if tuple(w) not in seen or (dups and rng.random() < 0.15):
            words.append(w)
            seen.add(tuple(w))
    # partial UTF-8 pieces and chains
    for s in ["é", "€", "😀"]:
        b = list(s.encode())
        words.append(b)
        words.append(b[:1])
        if len(b) > 2:
            words.append(b[1:])
            words.append([alpha[0]] + b[:2])
    # whitespace-only tokens with control characters (members of the default whitespace slice, not of the string slice)
    for w in (b"\t", b"\t\t", b" \t", b"\r\n", b"\n\n", b" \n", b"\r\r"):
        if tuple(w) not in seen:
            words.append(list(w))
            seen.add(tuple(w))
    a = alpha[0]
    words.append([a] * 40)
    for sp in SPECIALS:
        words.append(list(sp))
    return {"kind": "list", "words": words, "eos": len(words) - 1, "canonical": canonical}


def small_exact(alpha_bytes, multi, canonical=0):
    """Small vocabulary for exact-mode traces (TLC recomputes every mask): the given single
    bytes, the given multi-byte tokens, two specials, EOS."""
    words = [[b] for b in alpha_bytes] + [list(m) for m in multi]
    words.append(list(b"\xff<a>"))
    words.append(list(b"\xff<|end|>"))
    return {"kind": "list", "words": words, "eos": len(words) - 1, "canonical": canonical}
