"""C08: grids of numeric schemas and plain decimal literals in and around their intervals.
Python only *chooses* what to try (using Fraction to aim near the bounds); every expected
verdict is computed by TLA+ (spec/Numeric.tla) from the digit-sequence encodings."""
import json
import random
from fractions import Fraction


def dec_enc(text):
    """'-12.050' -> {"neg":1,"i":[1,2],"f":[0,5,0]}"""
    neg = 1 if text.startswith("-") else 0
    t = text.lstrip("-")
    if "." in t:
        i, f = t.split(".")
    else:
        i, f = t, ""
    return {"neg": neg, "i": [int(c) for c in i], "f": [int(c) for c in f]}


def frac_text(x):
    """exact decimal text of a Fraction with a power-of-ten denominator (no exponent, no -0)"""
    if x == 0:
        return "0"
    neg = x < 0
    x = abs(x)
    n, d = x.numerator, x.denominator
    k = 0
    while d != 1:
        n *= 10
        k += 1
        if n % d == 0:
            n //= d
            d = 1
    s = str(n)
    if k:
        s = s.rjust(k + 1, "0")
        s = s[:-k] + "." + s[-k:]
    return ("-" if neg else "") + s


def json_num(x):
    t = frac_text(x)
    return t


def schema_text(typ, lo, lo_excl, hi, hi_excl, mul):
    parts = [f'"type":"{typ}"']
    if lo is not None:
        parts.append(f'"{"exclusiveMinimum" if lo_excl else "minimum"}":{json_num(lo)}')
    if hi is not None:
        parts.append(f'"{"exclusiveMaximum" if hi_excl else "maximum"}":{json_num(hi)}')
    if mul is not None:
        parts.append(f'"multipleOf":{json_num(mul)}')
    return "{" + ",".join(parts) + "}"


def schema_meta(typ, lo, lo_excl, hi, hi_excl, mul):
    def opt(x, cond=True):
        return [dec_enc(frac_text(x))] if (x is not None and cond) else []
    return {"type": typ,
            "min": opt(lo, not lo_excl), "xmin": opt(lo, lo_excl),
            "max": opt(hi, not hi_excl), "xmax": opt(hi, hi_excl),
            "mul": opt(mul)}


def literals_for(rng, typ, lo, hi, mul, extra=6):
    """texts of plain decimal literals in and around the interval"""
    pts = set()
    anchors = [b for b in (lo, hi) if b is not None] or [Fraction(0)]
    for a in anchors:
        base = a.numerator // a.denominator  # floor
        for d in range(-3, 5):
            pts.add(Fraction(base + d))
        # fraction variants around the anchor
        for fr in ("0.5", "0.05", "0.50", "0.999", "0.0001", "0.10", "0.25", "0.75"):
            for sgn in (1, -1):
                pts.add(("T", frac_add_text(base, fr, sgn)))
        # the bound itself, with trailing zeros, proper prefixes of its fraction, and neighbours far out
        t = frac_text(a)
        pts.add(("T", t))
        if "." in t:
            pts.add(("T", t + "0"))
            ip, fp = t.split(".")
            for k in range(1, len(fp)):
                if fp[:k].strip("0"):
                    pts.add(("T", ip + "." + fp[:k]))
            pts.add(("T", t + "0000000000000000001"))
            pts.add(("T", ip + "." + dec_pred(fp) + "99999999999999999999"))
        else:
            pts.add(("T", t + ".00000000000000000001"))
            pts.add(("T", str(int(t) - 1) + ".99999999999999999999" if int(t) - 1 != 0 or True else t))
    if lo is not None and hi is not None:
        mid = (lo + hi) / 2
        pts.add(Fraction(mid.numerator // mid.denominator))
    if mul is not None:
        for a in anchors:
            q = a / mul
            k0 = q.numerator // q.denominator
            for k in range(k0 - 2, k0 + 3):
                pts.add(mul * k)
    for _ in range(extra):
        a = rng.choice(anchors)
        pts.add(Fraction(a.numerator // a.denominator + rng.randint(-15, 15)))
    pts.add(Fraction(0))
    out = set()
    for p in pts:
        t = p[1] if isinstance(p, tuple) else frac_text(p)
        t = clean(t)
        if t is not None:
            out.add(t)
    return sorted(out)


def dec_pred(fp):
    """predecessor of a fraction digit string as same-length digits ('250' -> '249'); '000' -> '000'"""
    n = int(fp) - 1
    if n < 0:
        return fp
    return str(n).rjust(len(fp), "0")


def frac_add_text(base, fr, sgn):
    x = Fraction(base) + sgn * Fraction(fr)
    t = frac_text(x)
    # keep the literal spelling of the fraction (trailing zeros matter): re-attach
    if fr.endswith("0") and "." in t:
        t = t + "0"
    return t


def clean(t):
    """plain decimal literal: optional minus, integer part without leading zeros, optional fraction;
    negative zero excluded; all-zero fractions excluded (drafts disagree whether 1.0 is an integer)"""
    neg = t.startswith("-")
    u = t.lstrip("-")
    if "." in u:
        i, f = u.split(".")
        if f.strip("0") == "":
            return None
    else:
        i, f = u, None
    if len(i) > 1 and i.startswith("0"):
        return None
    if i == "":
        return None
    if neg and i.strip("0") == "" and (f is None or f.strip("0") == ""):
        return None
    return t


def grid(rng, W, muls, decimal_share=0.15, big_share=0.05, limit=None):
    cases = []
    vals = [Fraction(v) for v in range(-W, W + 1)]
    dec_vals = [Fraction(s) for s in ("0.5", "-0.5", "-2.5", "2.5", "7.75", "-7.75", "1.25", "0.001", "-0.125", "3.3",
                                      "12.05", "-12.05", "0.75", "99.9", "-99.9", "100.01")]
    big = []
    for k in (2, 3, 5, 9, 12):
        for d in (-1, 0, 1):
            big.append(Fraction(10 ** k + d))
            big.append(Fraction(-(10 ** k) + d))

    def add(typ, lo, lx, hi, hx, mul):
        cases.append((typ, lo, lx, hi, hx, mul))

    for typ in ("integer", "number"):
        for lo in vals:
            for hi in vals:
                if lo > hi:
                    continue
                for lx in (False, True):
                    for hx in (False, True):
                        add(typ, lo, lx, hi, hx, rng.choice(muls))
        for v in vals:
            for x in (False, True):
                add(typ, v, x, None, False, rng.choice(muls))
                add(typ, None, False, v, x, rng.choice(muls))
        add(typ, None, False, None, False, None)
        for m in muls:
            add(typ, None, False, None, False, m)
    n_dec = int(len(cases) * decimal_share)
    for _ in range(n_dec):
        typ = rng.choice(["number", "number", "integer"])
        a, b = rng.choice(dec_vals + vals), rng.choice(dec_vals + vals)
        lo, hi = min(a, b), max(a, b)
        kind = rng.random()
        if kind < 0.2:
            lo = None
        elif kind < 0.4:
            hi = None
        add(typ, lo, rng.random() < 0.5, hi, rng.random() < 0.5, rng.choice(muls + [None, None]))
    n_big = int(len(cases) * big_share)
    for _ in range(n_big):
        typ = rng.choice(["number", "integer"])
        a, b = rng.choice(big + vals), rng.choice(big)
        lo, hi = min(a, b), max(a, b)
        kind = rng.random()
        if kind < 0.25:
            lo = None
        elif kind < 0.5:
            hi = None
        add(typ, lo, rng.random() < 0.5, hi, rng.random() < 0.5, rng.choice([None, None, Fraction(10), Fraction(7)]))
    rng.shuffle(cases)
    if limit:
        cases = cases[:limit]
    return cases


def build_cases(rng, cases):
    out = []
    for (typ, lo, lx, hi, hx, mul) in cases:
        lits = literals_for(rng, typ, lo, hi, mul)
        out.append({"ev": "Num",
                    "gram": {"kind": "json", "text": schema_text(typ, lo, lx, hi, hx, mul)},
                    "meta": dict(schema_meta(typ, lo, lx, hi, hx, mul), stext=schema_text(typ, lo, lx, hi, hx, mul)),
                    "lits": [{"text": t, "lit": dec_enc(t)} for t in lits]})
    return out
