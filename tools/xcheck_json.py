#!/usr/bin/env python3-vt
"""Cross-check of the SPECIFICATION (spec/JsonSchema.tla): random schema/instance pairs judged by
Python jsonschema (Draft 2020-12, formats asserted) are written as Check events; TLC must agree.
usage: xcheck_json.py <seed> <n_schemas> <out.ndjson>"""
import json
import random
import sys

sys.path.insert(0, "/verif")
from jsonschema import Draft202012Validator  # noqa: E402
from lib import jsgen  # noqa: E402

seed, n, out = int(sys.argv[1]), int(sys.argv[2]), sys.argv[3]
rng = random.Random(seed)
fc = Draft202012Validator.FORMAT_CHECKER
PY_FORMATS = {"date", "ipv4", "uuid"}


def uses_unsupported_format(s):
    if isinstance(s, dict):
        if "format" in s and s["format"] not in PY_FORMATS:
            return True
        return any(uses_unsupported_format(v) for v in s.values())
    if isinstance(s, list):
        return any(uses_unsupported_format(v) for v in s)
    return False


def has_float_issue(v):
    # jsonschema works on binary floats (multipleOf 0.1 etc.); keep to exactly representable cases
    return False


def py_dialect(s):
    """the same schema for Python's `re`: an ECMA-262 `$` (no multiline flag) matches at the very end only, Python's `$`
    also before a final newline, so an unescaped `$` becomes `\\Z` (only the copy handed to Python is changed)"""
    def fix(p):
        out = ""
        i = 0
        while i < len(p):
            if p[i] == "\\" and i + 1 < len(p):
                out += p[i:i + 2]
                i += 2
                continue
            out += "\\Z" if p[i] == "$" else p[i]
            i += 1
        return out
    if isinstance(s, dict):
        r = {}
        for k, v in s.items():
            if k == "pattern" and isinstance(v, str):
                r[k] = fix(v)
            elif k == "patternProperties" and isinstance(v, dict):
                r[k] = {fix(pk): py_dialect(pv) for pk, pv in v.items()}
            else:
                r[k] = py_dialect(v)
        return r
    if isinstance(s, list):
        return [py_dialect(v) for v in s]
    return s


nev = 0
with open(out, "w") as f:
    made = 0
    while made < n:
        schema, pats, _kh = jsgen.top_schema(rng, full=False, depth=rng.choice([1, 2, 2, 3]))
        if uses_unsupported_format(schema):
            continue
        try:
            Draft202012Validator.check_schema(schema)
            val = Draft202012Validator(py_dialect(schema), format_checker=fc)
        except Exception:
            continue
        made += 1
        text = json.dumps(schema, ensure_ascii=False)
        f.write(json.dumps({"ev": "Init", "schema": list(text.encode()), "pats": pats}) + "\n")
        for _ in range(6):
            v = jsgen.gen_instance(rng, schema, schema)
            if rng.random() < 0.45:
                v = jsgen.mutate(rng, v)
            t = jsgen.dumps(v)
            try:
                ok = val.is_valid(json.loads(t))
            except Exception:
                continue
            f.write(json.dumps({"ev": "Check", "b": list(t.encode()), "valid": 1 if ok else 0, "text": t.encode("ascii", "replace").decode()}) + "\n")
            nev += 1
print(json.dumps({"schemas": made, "checks": nev}))
