#!/opt/veriftools/pyvenv/bin/python
"""validate MANIFEST.json and every evidence file against the given schemas; evidence level must equal the claimed level"""
import json, sys, os
import jsonschema
man = json.load(open("/verif/MANIFEST.json"))
jsonschema.validate(man, json.load(open("/root/.vp/MANIFEST.schema.json")))
es = json.load(open("/root/.vp/EVIDENCE.schema.json"))
bad = 0
for c in man["checks"]:
    p = c["evidence_file"]
    if not os.path.exists(p):
        print("missing", p); bad += 1; continue
    e = json.load(open(p))
    try:
        jsonschema.validate(e, es)
    except jsonschema.ValidationError as x:
        print("INVALID", p, x.message[:200]); bad += 1
    if e["level"] != c["level_claimed"]["category"]:
        print("LEVEL", p, e["level"], c["level_claimed"]["category"]); bad += 1
print("ok" if not bad else f"{bad} problems")
sys.exit(1 if bad else 0)
