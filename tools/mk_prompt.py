#!/usr/bin/env python3
"""tools/mk_prompt.py <prop-id> <tag> [extra hint]: create a scratch worktree /tmp/wt_<tag> and print the
prompt for a fresh sub-agent that is asked to seed a property-breaking change (nothing from /verif)."""
import json, subprocess, sys
pid, tag = sys.argv[1], sys.argv[2]
extra = sys.argv[3] if len(sys.argv) > 3 else ""
props = {json.loads(l)['id']: json.loads(l) for l in open('/verif/properties.jsonl')}
p = props[pid]
wt = f"/tmp/wt_{tag}"
subprocess.run(["git", "-C", "/repo", "worktree", "add", "-q", "--detach", wt, "HEAD"], check=True)
print(f"""You are helping to evaluate a verification effort for the Rust project guidance-ai/llguidance (a constrained-decoding engine: grammars -> Earley parser + lexer -> per-token masks over a token trie). You have your own scratch git worktree of the project at {wt} (work ONLY there; never touch /repo or /verif; there is no network access, use `cargo ... --offline`).

Here is a semantic property the project is supposed to satisfy:

  Title: {p['title']}
  Statement: {p['statement']}
  Quantified over: {p['quantifier']['text']}
  Code it is anchored in: {', '.join(p['anchors']['files'])}

Your task: produce ONE realistic code change (a bug a developer could plausibly introduce: an off-by-one, a missing cache invalidation, a wrong condition, a forgotten case, two cooperating edits that each look fine alone...) to the library sources in {wt} that BREAKS this property, while
  (a) the workspace still compiles, and
  (b) the existing test suite still passes: run `cd {wt} && cargo test --workspace --no-fail-fast --offline 2>&1 | tail -40` (many tests that need network-downloaded tokenizers fail even on the unmodified tree; a test counts only if it passed before your change — record the baseline pass/fail set of the unmodified tree first and compare), and
  (c) the breakage needs something SPECIFIC to manifest — a particular multi-step sequence of API calls, an unusual input, a particular history/state, a particular vocabulary shape, a particular interleaving — not something ordinary use would expose at once. Subtle beats blatant. Do not just delete a feature or make everything fail. {extra}

Also write a demonstration: a small Rust test or example program (e.g. a new file under {wt}/parser/tests/, using only the public API and `toktrie::ApproximateTokEnv::single_byte_env()` or a hand-built `TokTrie` vocabulary — no network tokenizers) that FAILS with your change and PASSES without it. Verify both directions yourself.

Deliver, in {wt}/MUTANT/ :
  - patch.diff  : `git diff` of the library change only (not the demonstration), applicable with `git apply` to the unmodified tree;
  - demo.rs (or similar) plus the exact command to run it, in README.md, together with: what the change does, why it breaks the property, what specific condition it needs to manifest, and the observed failing/passing output.
Leave the worktree with the library change REVERTED (only MUTANT/ left behind besides build output), so patch.diff applies cleanly. Keep your final answer short: the path of the deliverables and a 5-line summary. Do not look for or read anything under /verif.""")
