#!/bin/bash
# usage: tools/try_mutant.sh <seeded-dir> <tier> <seeds> <prop>...   (applies the patch to /repo, runs, reverts)
d=$1; tier=$2; seeds=$3; shift 3
git -C /repo diff --quiet || { echo "/repo dirty"; exit 2; }
git -C /repo apply /verif/$d/patch.diff || exit 2
trap 'git -C /repo checkout -- .' EXIT
for p in "$@"; do for s in $seeds; do
  out=$(VERIF_SEED=$s /verif/check $p --tier $tier 2>&1); rc=$?
  echo "$d $p seed=$s rc=$rc $(echo "$out" | grep -c '^VIOLATION') violations; $(echo "$out" | grep -m1 -A1 '^VIOLATION' | tail -1 | cut -c1-160)"
done; done
