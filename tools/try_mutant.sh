#!/bin/bash
# usage: tools/try_mutant.sh <seeded-dir> <tier> "<seeds>" <prop>...
# Applies the patch to a scratch worktree of /repo under /tmp (never to /repo itself), runs the checks against that tree
# (VERIF_REPO; work files and evidence go under .work/alt-*), removes the worktree.
d=$1; tier=$2; seeds=$3; shift 3
name=mut_$(basename $d | tr -c 'A-Za-z0-9\n' '_')_$$
wt=/tmp/$name
git -C /repo worktree add --detach -q $wt HEAD || exit 2
trap 'git -C /repo worktree remove --force '$wt' 2>/dev/null; rm -rf /verif/.work/alt-'$name EXIT
git -C $wt apply /verif/$d/patch.diff || exit 2
for p in "$@"; do for s in $seeds; do
  out=$(VERIF_REPO=$wt VERIF_SEED=$s /verif/check $p --tier $tier 2>&1); rc=$?
  echo "$d $p seed=$s rc=$rc $(echo "$out" | grep -c '^VIOLATION') violations; $(echo "$out" | grep -m1 -A1 '^VIOLATION' | tail -1 | cut -c1-160)"
done; done
