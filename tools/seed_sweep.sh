#!/bin/bash
# tools/seed_sweep.sh "<seeds>" <prop>... : quick tier under other seeds; any rc != 0 on the unchanged tree is a defect of the machinery
cd "$(dirname "$0")/.."
seeds=$1; shift
for s in $seeds; do for p in "$@"; do
  t=$(date +%s)
  out=$(VERIF_SEED=$s timeout 3600 ./check $p --tier quick 2>&1); rc=$?
  echo "== seed=$s $p rc=$rc $(( $(date +%s) - t ))s $(echo "$out" | grep -c '^VIOLATION') violations $(echo "$out" | grep -c '^KNOWN') known"
  if [ $rc -ne 0 ]; then echo "$out" | grep -A1 '^VIOLATION\|TOOL-ERROR' | head -8 | cut -c1-400; fi
done; done
