#!/bin/bash
# tools/regen_evidence.sh [props...] : quick tier, seed 1, on /repo as it is; evidence/<id>.json is rewritten by each check
cd "$(dirname "$0")/.."
props=${@:-C01 C02 C03 C04 C05 C06 C07 C08 C09 C10 C11 C12 C13 C14 C15 C16 C17 C18 C19 C20}
for p in $props; do
  t=$(date +%s)
  out=$(VERIF_SEED=1 timeout 3600 ./check $p --tier quick 2>&1); rc=$?
  echo "== $p rc=$rc $(( $(date +%s) - t ))s $(echo "$out" | grep -c '^VIOLATION') violations $(echo "$out" | grep -c '^KNOWN') known"
  if [ $rc -ne 0 ]; then echo "$out" | grep -A1 '^VIOLATION\|TOOL-ERROR' | head -8 | cut -c1-400; fi
done
