#!/bin/bash
# run thorough tiers one after the other; summary lines to stdout
cd "$(dirname "$0")/.."
for p in "$@"; do
  s=$(date +%s)
  out=$(timeout 5400 ./check $p --tier thorough 2>&1); rc=$?
  echo "== $p rc=$rc $(( $(date +%s) - s ))s $(echo "$out" | grep -c '^VIOLATION') violations $(echo "$out" | grep -c '^KNOWN') known"
  echo "$out" | grep -A1 '^VIOLATION' | head -12 | cut -c1-300
  echo "$out" | grep 'TOOL-ERROR' | head -3
done
