#!/bin/bash
# tools/confirm_mutant.sh <worktree> "<demo command run inside the worktree>"
# Confirms a seeded change in its scratch worktree: (1) demo passes on the clean tree, (2) with patch.diff applied the
# workspace builds, the demo FAILS, and every test that passes on the clean tree still passes; leaves the tree clean.
wt=$1; demo=$2
cd $wt || exit 2
git checkout -q -- . 2>/dev/null
run_suite() { cargo test --workspace --no-fail-fast --offline -j 8 2>&1 | grep -E '^test .* \.\.\. ok$' | sort -u; }
echo "== clean tree: demo"; (eval "$demo") >/tmp/cm_demo_clean.log 2>&1; echo "demo rc(clean)=$?"
run_suite > /tmp/cm_clean.txt; echo "clean passing: $(wc -l < /tmp/cm_clean.txt)"
git apply MUTANT/patch.diff || { echo "patch does not apply"; exit 2; }
echo "== mutated tree: demo"; (eval "$demo") >/tmp/cm_demo_mut.log 2>&1; echo "demo rc(mutant)=$?"
run_suite > /tmp/cm_mut.txt; echo "mutant passing: $(wc -l < /tmp/cm_mut.txt)"
echo "tests lost by the mutant:"; comm -23 /tmp/cm_clean.txt /tmp/cm_mut.txt | grep -v "$(basename "${demo##* }")" | head
git apply -R MUTANT/patch.diff
git status --short | head -5
