#!/bin/bash
# tools/why.sh <module> <cfg> <replay> : print events, the WHY diagnostics of the rejected event
f=$3
python3 - <<PY
import json
L=[json.loads(x) for x in open("$f")]
init=L[0]
if 'cfgs' in init and 'tok' in init['cfgs'][0]:
    print({i:bytes(t).decode('latin1') for i,t in enumerate(init['cfgs'][0]['tok'])})
for k in ('cfg','rx'):
    if k in init: print(k, json.dumps(init[k])[:1200])
for i,e in enumerate(L[1:],1):
    print(i, json.dumps(e)[:170])
    if i>60: break
PY
cd /verif/spec && TRACE=$f EXPLAIN=1 JAVA_TOOL_OPTIONS="-Xss1g" timeout 300 tlc -workers 1 -metadir /tmp/t1/mdw -cleanup -noGenerateSpecTE -config $2 $1.tla 2>&1 | grep -A16 '"WHY"\|REJECT' | head -40 | tr '\n' ' ' | cut -c1-900; echo
